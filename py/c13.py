"""C13 - a key-range scan returns exactly the rows in the range.

SQL leg: tables with a primary key at any position and of several types, spread over many blocks
and row-sets with deleted rows; queries with every bound kind on the key (+ residual predicates,
any projection) are compared with (a) an independent Python evaluation over the model rows and
(b) the same statement with the optimizer disabled. EXPLAIN tells whether the range was pushed
into the scan, so the evidence counts pushed-down cases separately.
Storage leg (Rust driver `rlv lab range`): the real RowSetIterator with a KeyRange filter and the
real start_rowid seek vs. the unfiltered scan filtered by the driver."""
import os
import json
import random
import subprocess

from common import Report, Violation, parallel_map, h, run_sentinels, RLV
from gen import Col, Table, lit, gen_value
from model import ModelTable, gen_pred, py_row, _cmp
from sqlcase import RL, ms

LAYOUTS = [
    dict(block=32, rowset=200, crc=True, first_key=True),
    dict(block=64, rowset=1000, crc=False, first_key=True),
    dict(block=128, rowset=100000, crc=True, first_key=True),
    dict(block=16384, rowset=256 << 20, crc=True, first_key=True),
]
KEY_TYPES = ["INT"] * 5 + ["BIGINT", "SMALLINT", "VARCHAR", "DATE"]
DATES = ["1999-12-31", "2000-01-01", "2000-02-29", "2001-03-04", "2010-10-10", "2024-02-29"]


TYPE_EDGES = dict(INT=(-2147483648, 2147483647), SMALLINT=(-32768, 32767), BIGINT=(-9223372036854775808, 9223372036854775807))


def key_value(rng, typ, wide=True):
    if typ in ("INT", "BIGINT", "SMALLINT"):
        if rng.random() < 0.06:
            # the ends of the key type's range (and their neighbours): a bound rewritten to `v + 1` / `v - 1` has nowhere to go there
            lo, hi = TYPE_EDGES[typ]
            return rng.choice([lo, hi, hi, lo + 1, hi - 1])
        return rng.randint(-20, 300) if wide else rng.randint(0, 12)
    if typ == "VARCHAR":
        return rng.choice("abcdefghij") + str(rng.randint(0, 30))
    if typ == "DATE":
        return rng.choice(DATES)[:8] + f"{rng.randint(1, 28):02d}"


def run_case(args):
    seed, idx, nq = args
    rng = random.Random(f"c13-{seed}-{idx}")
    layout = rng.choice(LAYOUTS)
    ktyp = rng.choice(KEY_TYPES)
    ncols = rng.randint(2, 4)
    kpos = 0 if rng.random() < 0.6 else rng.randrange(ncols)
    cols = []
    for i in range(ncols):
        if i == kpos:
            cols.append(Col("k", ktyp, nullable=False, pk=True))
        else:
            cols.append(Col("pqrs"[i], rng.choice(["INT", "INT", "VARCHAR", "BIGINT", "BOOLEAN"])))
    t = Table("t", cols)
    res = dict(seed=seed, idx=idx, violations=[], evals=0, pushed=0, nontrivial=[], inconclusive=None, sample=None, kinds={})
    rl = RL("disk", layout)
    stmts = [t.ddl()]
    mt = ModelTable(t)

    def fail(sig, what, q):
        res["violations"].append(dict(signature=sig, what=what))
        res["witness"] = dict(seed=seed, idx=idx, nq=nq, statements=stmts + [q])

    try:
        r = rl.sql(stmts[0])
        if not r["ok"]:
            res["inconclusive"] = "create rejected"
            return res
        used = set()
        # the key column is not enforced unique: half of the cases hold duplicate keys (runs of
        # equal keys then cross block and row-set boundaries)
        dups = rng.random() < 0.5
        res["kinds"]["tables_with_duplicate_keys" if dups else "tables_with_unique_keys"] = 1
        for _ in range(rng.randint(1, 5)):
            rows = []
            for _ in range(rng.choice([3, 10, 40, 120])):
                row = [gen_value(rng, c, null_p=0.15) for c in t.cols]
                k = key_value(rng, ktyp, wide=not dups)
                if k in used and not dups:
                    continue
                used.add(k)
                row[kpos] = k
                rows.append(tuple(row))
            if not rows:
                continue
            vals = ", ".join("(" + ", ".join(lit(v, c.typ) for v, c in zip(x, t.cols)) + ")" for x in rows)
            s = f"INSERT INTO t VALUES {vals}"
            stmts.append(s)
            r = rl.sql(s)
            if not r["ok"]:
                res["inconclusive"] = "insert failed: " + r.get("err", "")[:50]
                return res
            mt.insert(rows)
            if rng.random() < 0.35:
                p = gen_pred(rng, t)
                s = f"DELETE FROM t WHERE {p.sql}"
                stmts.append(s)
                r = rl.sql(s)
                if r["ok"]:
                    mt.delete(p)
            if rng.random() < 0.25:
                stmts.append("<tick>")
                rl.cmd({"op": "tick", "secs": 1})
        keys_present = sorted(x[kpos] for x in mt.rows)
        for qi in range(nq):
            # range on the key
            def bound_value():
                x = rng.random()
                if keys_present and x < 0.45:
                    return rng.choice(keys_present)
                if keys_present and x < 0.6:
                    return keys_present[0] if rng.random() < 0.5 else keys_present[-1]
                v = key_value(rng, ktyp)
                if ktyp in ("INT", "BIGINT", "SMALLINT") and rng.random() < 0.3:
                    v = rng.choice([-1000, 100000, -21, 301])
                return v
            kind = rng.choice(["eq", "lt", "le", "gt", "ge", "two", "two", "rev", "conflict"])
            conds = []
            opmap = {"eq": "=", "lt": "<", "le": "<=", "gt": ">", "ge": ">="}
            if kind in opmap:
                conds.append((opmap[kind], bound_value()))
            elif kind == "two":
                a, b = bound_value(), bound_value()
                if a > b:
                    a, b = b, a
                conds.append((rng.choice([">", ">="]), a))
                conds.append((rng.choice(["<", "<="]), b))
            elif kind == "conflict":
                a, b = bound_value(), bound_value()
                if a < b:
                    a, b = b, a
                conds.append((">", a))
                conds.append(("<", b))
            elif kind == "rev":
                conds.append((rng.choice(["<", "<=", ">", ">=", "="]), bound_value(), True))
            parts, fns = [], []
            for c in conds:
                op, v = c[0], c[1]
                if len(c) == 3:
                    flip = {"<": ">", "<=": ">=", ">": "<", ">=": "<=", "=": "="}[op]
                    parts.append(f"{lit(v, ktyp)} {op} k")
                    fns.append(lambda row, flip=flip, v=v: _cmp(flip, row[kpos], v))
                else:
                    parts.append(f"k {op} {lit(v, ktyp)}")
                    fns.append(lambda row, op=op, v=v: _cmp(op, row[kpos], v))
            residual = None
            if rng.random() < 0.4:
                residual = gen_pred(rng, t)
                parts.append(f"({residual.sql})")
            rng.shuffle(parts) if rng.random() < 0.3 else None
            proj = list(range(ncols)) if rng.random() < 0.4 else rng.sample(range(ncols), rng.randint(1, ncols))
            sel = ", ".join(t.cols[i].name for i in proj)
            q = f"SELECT {sel} FROM t WHERE " + " AND ".join(parts)

            def keep(row):
                for f in fns:
                    if f(row) is not True:
                        return False
                if residual is not None and residual.fn(row) is not True:
                    return False
                return True
            want = ms([tuple(py_row(x, t)[i] for i in proj) for x in mt.rows if keep(x)])
            r = rl.sql(q)
            res["evals"] += 1
            res["kinds"][kind] = res["kinds"].get(kind, 0) + 1
            if r.get("dead"):
                fail("range-query-aborts", f"{q}: {r['err'][:100]}", q)
                break
            if not r["ok"]:
                fail("range-query-fails", f"{q}: {r.get('kind')} {r.get('err', '')[:100]} {r.get('panics')}", q)
                break
            ex = rl.sql("EXPLAIN " + q)
            pushed = ex["ok"] and "filter: true" not in str(ex["rows"]) and "Scan" in str(ex["rows"])
            if pushed:
                res["pushed"] += 1
            if ms(r["rows"]) != want:
                got = ms(r["rows"])
                fail("range-scan-rows-differ" + (":pushed" if pushed else ":not-pushed"),
                     f"{q}: {len(got)} rows vs model {len(want)}; missing {[x for x in want if x not in got][:3]} extra {[x for x in got if x not in want][:3]}", q)
                break
            # the same statement without the optimizer (second reference)
            rl.sql("PRAGMA disable_optimizer")
            r2 = rl.sql(q)
            rl.sql("PRAGMA enable_optimizer")
            if r2["ok"] and ms(r2["rows"]) != ms(r["rows"]):
                fail("range-scan-differs-from-unoptimized", f"{q}: {len(r['rows'])} vs {len(r2['rows'])} rows", q)
                break
            if pushed and want:
                res["nontrivial"].append(h([stmts, q]))
        res["sample"] = dict(layout=layout, ddl=stmts[0], rows=len(mt.rows), example=q if nq else None)
    except Exception as e:
        res["inconclusive"] = f"harness: {type(e).__name__}: {e}"
    finally:
        rl.close()
    return res


def storage_leg(seed, n):
    """Rust lab driver: RowSetIterator with KeyRange vs driver-side filtering."""
    try:
        p = subprocess.run([RLV, "lab", "range", str(seed), str(n)], stdout=subprocess.PIPE, stderr=subprocess.PIPE,
                           text=True, timeout=900)
    except subprocess.TimeoutExpired:
        return None
    if p.returncode not in (0, 1):
        return dict(error=f"driver rc={p.returncode}: {p.stderr[-300:]}")
    try:
        return json.loads(p.stdout.strip().splitlines()[-1])
    except Exception as e:
        return dict(error=f"bad driver output: {e}: {p.stdout[-200:]}")


def run(tier, seed):
    rep = Report("C13", tier, seed, "exploration")
    n, nq = (400, 10) if tier == "quick" else (5000, 14)
    rep.rule = ("SQL leg: tables with the key at any position / of INT, BIGINT, SMALLINT, VARCHAR, DATE type over 4 layouts, "
                "1-5 inserts + deletes + compactions, ranges =,<,<=,>,>=,two-sided,reversed,contradictory with optional residual "
                "and any projection; distinct non-trivial = distinct (history, query) whose range was pushed into the scan "
                "(per EXPLAIN) and whose expected result is non-empty. Storage leg: see storage_leg in coverage")
    pushed = 0
    kinds = {}
    for res in parallel_map(run_case, [(seed, i, nq) for i in range(n)]):
        rep.evaluations += res["evals"]
        pushed += res["pushed"]
        rep.distinct.update(res["nontrivial"])
        for k, v in res["kinds"].items():
            kinds[k] = kinds.get(k, 0) + v
        if res["inconclusive"]:
            rep.inc(res["inconclusive"][:50])
        if res["sample"]:
            rep.sample(res["sample"], limit=4)
        for v in res["violations"]:
            rep.add_violation(Violation(v["signature"], v["what"], res.get("witness")))
    st = storage_leg(seed, 2000 if tier == "quick" else 20000)
    if st is None:
        rep.inc("storage leg: watchdog")
    elif "error" in st:
        rep.inc("storage leg: " + st["error"][:60])
    else:
        rep.evaluations += st["cases"]
        for v in st.get("violations", []):
            rep.add_violation(Violation("storage:" + v["signature"], v["what"], dict(storage_case=v["case"])))
        rep.coverage["storage_leg"] = {k: v for k, v in st.items() if k != "violations"}
        rep.floor("storage-level range scans with a non-empty filtered result", st.get("nonempty", 0), st["cases"] // 4)
    rep.coverage.update(queries_with_range_pushed_into_scan=pushed, bound_kinds=kinds)
    rep.floor("queries whose range was pushed into the scan", pushed, n)
    rep.assumptions = ["EXPLAIN output is used only for coverage accounting (pushed or not), never for the verdict"]
    if tier == "thorough" and not os.environ.get("VERIF_OVERLAY"):
        import sanitize
        sanitize.overlay(rep, "asan", timeout=5400)
    return rep.finish()


def replay(path):
    w = json.load(open(path))["witness"]
    if "storage_case" in w:
        p = subprocess.run([RLV, "lab", "range-replay", json.dumps(w["storage_case"])])
        return p.returncode
    res = run_case((w["seed"], w["idx"], w["nq"]))
    for v in res["violations"]:
        print("VIOLATION-REPRO", v)
    return 1 if res["violations"] else 0
