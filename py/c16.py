"""C16 - declared types and constraints hold for every stored and returned value.

Leg A (returned values): for generated queries the runner computes the static type of every
output column of the executed plan with the planner's own type analysis on the live catalog, runs
the plan, and reports the runtime array variant of every column of every result chunk and the
chunk widths: variants must equal the static types, widths the select-list length.
Leg B (stored values): INSERT ... VALUES / column subsets / INSERT ... SELECT with implicit
conversions into tables of every type on both engines; what is read back must have the declared
type, be NULL only in nullable columns, and equal the inserted value (numerically / textually);
a statement that cannot convert losslessly must fail."""
import random
from decimal import Decimal, InvalidOperation

from common import Report, Violation, parallel_map, h, run_sentinels, panic_site
from gen import gen_schema, setup_statements, QueryGen
from sqlcase import RL, DISK_LAYOUTS, norm_rows, rows_of

TYPES = ("INT", "BIGINT", "SMALLINT", "BOOLEAN", "VARCHAR", "DOUBLE", "DECIMAL(10,2)", "DATE")
FEATURES = dict(full_join=True, not_in_sub=False, like=True, offset_no_limit=True, case_no_else=True, null_lit=True,
                derived_limit=True)
VARIANT = {"INT": "Int32", "BIGINT": "Int64", "SMALLINT": "Int16", "BOOLEAN": "Bool", "VARCHAR": "String", "DOUBLE": "Float64",
           "DECIMAL(10,2)": "Decimal", "DATE": "Date"}


def static_variant(t):
    """planner DataType Debug text -> ArrayImpl variant name"""
    for k in ("Int16", "Int32", "Int64", "Float64", "Bool", "String", "Date", "TimestampTz", "Timestamp", "Interval", "Blob", "Null"):
        if t.startswith(k):
            return "NULL" if k == "Null" else k
    if t.startswith("Decimal"):
        return "Decimal"
    if t.startswith("Vector"):
        return "Vector"
    return t


NUM_SETUP = ["create table nt(i int, b bigint, s smallint, f double, d decimal(10,2), e decimal(6,3))",
             "insert into nt values (1, 10, 2, 1.5, 2.25, 0.125), (-3, 40000000000, -7, -0.25, 100.00, 7.5), (NULL, NULL, NULL, NULL, NULL, NULL), (0, 1, 1, 3.0, 0.01, 1.000)"]
NUM_COLS = ["i", "b", "s", "f", "d", "e"]


class _Q:
    def __init__(self, sql, ncols):
        self.sql, self.ncols = sql, ncols


def num_expr(rng, depth=0):
    x = rng.random()
    if depth >= 2 or x < 0.35:
        return rng.choice(NUM_COLS + ["2", "1.5", "0.5e0", "3000000000", "CAST(2 AS SMALLINT)"]) if rng.random() < 0.85 else "NULL"
    if x < 0.8:
        return f"({num_expr(rng, depth + 1)} {rng.choice(['+', '-', '*', '/', '%'])} {num_expr(rng, depth + 1)})"
    if x < 0.88:
        return f"(- {num_expr(rng, depth + 1)})"
    if x < 0.95:
        return f"(CASE WHEN {num_expr(rng, depth + 1)} {rng.choice(['<', '=', '>='])} {num_expr(rng, depth + 1)} THEN {num_expr(rng, depth + 1)} ELSE {num_expr(rng, depth + 1)} END)"
    return f"CAST({num_expr(rng, depth + 1)} AS {rng.choice(['INT', 'BIGINT', 'DOUBLE', 'DECIMAL(10,2)', 'SMALLINT'])})"


def num_query(rng):
    n = rng.randint(1, 3)
    items = [num_expr(rng) for _ in range(n)]
    shape = rng.random()
    if shape < 0.6:
        return _Q("SELECT " + ", ".join(f"{e} AS c{i}" for i, e in enumerate(items)) + " FROM nt", n)
    if shape < 0.8:
        agg = [f"{rng.choice(['SUM', 'MIN', 'MAX'])}({e}) AS c{i}" for i, e in enumerate(items)]
        return _Q("SELECT " + ", ".join(agg) + " FROM nt", n)
    return _Q(f"SELECT {items[0]} AS c0, COUNT(*) AS c1 FROM nt GROUP BY {items[0]}", 2)


def leg_a(args):
    seed, idx, nq = args
    rng = random.Random(f"c16a-{seed}-{idx}")
    tables = gen_schema(rng, types=TYPES, pk_types=("INT",), max_cols=4, pk_p=0.4)
    stmts = setup_statements(rng, tables, max_rows=rng.choice([3, 12, 40]), max_stmts=3, wide_pk=True)
    engine = "disk" if rng.random() < 0.4 else "mem"
    res = dict(leg="A", violations=[], evals=0, judged=0, judged_num=0, distinct=[], inconclusive=None, sample=None)
    rl = RL(engine, rng.choice(DISK_LAYOUTS[:4]))
    try:
        for s in stmts:
            rl.sql(s)
        g = QueryGen(rng, tables, FEATURES)
        for s in NUM_SETUP:
            rl.sql(s)
        stmts = stmts + NUM_SETUP
        for qi in range(nq):
            # every fourth statement: expressions over columns of *every* numeric type (the generator's arithmetic is
            # integer-typed), so that each operand-type pair of + - * / % and the comparison / CASE / cast / aggregate
            # typing rules meet the kernels' result variants
            q = num_query(rng) if qi % 4 == 3 else g.query()
            try:
                r = rl.cmd({"op": "plancheck", "sql": q.sql}, timeout=60)
            except Exception as e:
                res["inconclusive"] = f"runner: {type(e).__name__}"
                break
            res["evals"] += 1
            if not r.get("ok") or not r.get("accepted") or r.get("exec") != "ok":
                continue
            st = r.get("types_optimized")
            if st is None:
                continue
            want = [static_variant(t) for t in st]
            res["judged"] += 1
            res["judged_num"] += isinstance(q, _Q)
            if r["runtime_types"]:
                res["distinct"].append(h(q.sql))
            for w in r.get("chunk_widths", []):
                if w != q.ncols:
                    res["violations"].append(dict(signature="result-width-differs", what=f"{q.sql[:200]}: chunk with {w} columns, select list has {q.ncols}", sql=q.sql, setup=stmts, engine=engine))
            for rt in r["runtime_types"]:
                if rt != want:
                    bad = [(i, a, b) for i, (a, b) in enumerate(zip(rt, want)) if a != b]
                    kinds = sorted({f"{b}->{a}" for _, a, b in bad})
                    res["violations"].append(dict(signature="runtime-type-differs:" + ",".join(kinds), what=f"{q.sql[:220]}: static {want} runtime {rt}", sql=q.sql, setup=stmts, engine=engine))
                    break
            bt = r.get("types_bound")
            if bt is not None and [static_variant(t) for t in bt] != want:
                pass   # judged by C17 (output-types-change)
        res["sample"] = q.sql[:160]
        # temporal / binary types (a stream of its own, after everything else): casts between every pair of them, and
        # INSERT ... SELECT / VALUES that need such a cast - whichever of these the binder accepts must produce, and store, the
        # variant of the derived / declared type
        rng2 = random.Random(f"c16t-{seed}-{idx}")
        if rng2.random() < 0.3:
            tsetup = ["create table tt(ts timestamp, tz timestamptz, d date, iv interval, bl blob, s varchar)",
                      "insert into tt values ('2020-01-02 03:04:05', '2020-01-02 03:04:05 +08:00', '2020-01-02', '1 day 2 hours', 'ab', '2021-03-04 05:06:07'), "
                      "(NULL, NULL, NULL, NULL, NULL, NULL), ('1969-12-31 23:59:59', '1969-12-31 23:59:59 +00:00', '1969-12-31', '-1 day', '\\x00ff', '2000-01-01')"]
            for st_ in tsetup:
                rl.sql(st_)
            tcols = {"ts": "TIMESTAMP", "tz": "TIMESTAMPTZ", "d": "DATE", "iv": "INTERVAL", "bl": "BLOB", "s": "VARCHAR"}
            variant = {"TIMESTAMP": "Timestamp", "TIMESTAMPTZ": "TimestampTz", "DATE": "Date", "INTERVAL": "Interval", "BLOB": "Blob", "VARCHAR": "String"}
            for _ in range(6):
                src, dstt = rng2.choice(sorted(tcols)), rng2.choice(sorted(variant))
                sql = rng2.choice([f"SELECT CAST({src} AS {dstt}) AS c0 FROM tt", f"SELECT {src}::{dstt} AS c0, {src} AS c1 FROM tt WHERE {src} IS NOT NULL",
                                   f"SELECT MAX(CAST({src} AS {dstt})) AS c0 FROM tt", f"SELECT CASE WHEN {src} IS NULL THEN NULL ELSE CAST({src} AS {dstt}) END AS c0 FROM tt"])
                try:
                    r = rl.cmd({"op": "plancheck", "sql": sql}, timeout=60)
                except Exception as e:
                    res["inconclusive"] = f"runner: {type(e).__name__}"
                    break
                res["evals"] += 1
                if not r.get("ok") or not r.get("accepted") or r.get("exec") != "ok" or r.get("types_optimized") is None:
                    continue
                want = [static_variant(t) for t in r["types_optimized"]]
                res["judged"] += 1
                res["judged_temporal"] = res.get("judged_temporal", 0) + 1
                for rt in r["runtime_types"]:
                    if rt != want:
                        kinds = sorted({f"{b}->{a}" for a, b in zip(rt, want) if a != b})
                        res["violations"].append(dict(signature="runtime-type-differs:" + ",".join(kinds), what=f"{sql[:220]}: static {want} runtime {rt}", sql=sql, setup=stmts + tsetup, engine=engine))
                        break
            for k in range(4):
                src, dst = rng2.choice(sorted(tcols)), rng2.choice(sorted(tcols))
                dname = f"td{k}"
                rl.sql(f"create table {dname}(x {tcols[dst]}, y int)")
                ins = rng2.choice([f"insert into {dname}(x) select {src} from tt", f"insert into {dname} select {src}, 1 from tt where {src} is not null",
                                   f"insert into {dname}(x) select max({src}) from tt"])
                r = rl.sql(ins)
                res["evals"] += 1
                if not r["ok"]:
                    continue
                back = rl.r.sql(f"select * from {dname}")
                if not back["ok"]:
                    res["violations"].append(dict(signature="select-after-insert-fails", what=f"{ins}: {back.get('err')}", sql=ins, setup=stmts + tsetup, engine=engine))
                    continue
                res["judged_temporal_inserts"] = res.get("judged_temporal_inserts", 0) + 1
                for ch in back["stmts"][-1]:
                    if tuple(ch["types"]) != (variant[tcols[dst]], "Int32"):
                        res["violations"].append(dict(signature="stored-type-differs", what=f"create table {dname}(x {tcols[dst]}, y int); {ins}: read back {ch['types']}", sql=ins, setup=stmts + tsetup, engine=engine))
                        break
    except Exception as e:
        res["inconclusive"] = f"harness: {type(e).__name__}: {e}"
    finally:
        rl.close()
    return res


SOURCES = {
    "int": ["0", "1", "-1", "7", "300", "40000", "2147483647", "3000000000", "-32769"],
    "float": ["0.0", "1.5", "2.0", "-3.25", "1000000.0", "0.004"],
    "str": ["'7'", "'abc'", "'1.5'", "''", "'true'", "'2020-01-02'", "' 8'"],
    "bool": ["true", "false"],
    "null": ["NULL"],
    "date": ["DATE '2020-01-02'"],
}


def same_value(src_kind, lit, cell, typ):
    """does the stored cell equal the inserted literal?"""
    if lit == "NULL":
        return cell is None
    if cell is None:
        return False
    try:
        if src_kind in ("int", "float"):
            x = Decimal(lit)
            if isinstance(cell, bool):
                return False
            if isinstance(cell, int):
                return Decimal(cell) == x
            if isinstance(cell, str) and cell[:2] in ("f:", "d:"):
                return Decimal(cell[2:]) == x if cell[:2] == "d:" else float(cell[2:]) == float(x)
            if isinstance(cell, str):
                return cell.strip() == lit or _num_eq(cell, x)
            return False
        if src_kind == "str":
            s = lit[1:-1]
            if isinstance(cell, bool):
                return s.strip().lower() == str(cell).lower()
            if isinstance(cell, int):
                return _num_eq(s, Decimal(cell))
            if isinstance(cell, str) and cell[:2] == "f:":
                return float(s) == float(cell[2:])
            if isinstance(cell, str) and cell[:2] == "d:":
                return Decimal(s.strip()) == Decimal(cell[2:])
            if isinstance(cell, str) and cell[:2] == "D:":
                return cell[2:] == s.strip()
            return cell == s
        if src_kind == "bool":
            b = lit == "true"
            if isinstance(cell, bool):
                return cell == b
            if isinstance(cell, int):
                return cell == int(b)
            if isinstance(cell, str):
                return cell.lower() in (lit, "1" if b else "0", "f:1.0" if b else "f:0.0", "d:1" if b else "d:0")
        if src_kind == "date":
            return cell == "D:2020-01-02" or cell == "2020-01-02"
    except (InvalidOperation, ValueError):
        return False
    return False


def _num_eq(s, x):
    try:
        return Decimal(s.strip()) == x
    except InvalidOperation:
        return False


def leg_b(args):
    seed, idx, nins = args
    rng = random.Random(f"c16b-{seed}-{idx}")
    engine = "disk" if rng.random() < 0.5 else "mem"
    ncols = rng.randint(1, 4)
    cols = [(f"c{i}", rng.choice(TYPES), rng.random() < 0.6) for i in range(ncols)]
    res = dict(leg="B", violations=[], evals=0, judged=0, distinct=[], inconclusive=None, sample=None, accepted=0, rejected=0)
    rl = RL(engine, DISK_LAYOUTS[0])
    try:
        # primary keys: a column option on one column, or a table constraint over one or two columns
        # (the only way to declare a composite key); key columns carry no NOT NULL of their own
        pk, pk_style = [], None
        keyable = [i for i, (_, t, _) in enumerate(cols) if t in ("INT", "BIGINT")]
        if keyable and rng.random() < 0.45:
            pk_style = rng.choice(["column", "constraint", "constraint"])
            pk = [rng.choice(keyable)] if pk_style == "column" else sorted(rng.sample(keyable, min(len(keyable), rng.choice([1, 2]))))
            cols = [(n, t, True if i in pk else nl) for i, (n, t, nl) in enumerate(cols)]
        ddl = "create table t(" + ", ".join(
            f"{n} {t}{' PRIMARY KEY' if (pk_style == 'column' and i in pk) else ('' if nl else ' NOT NULL')}" for i, (n, t, nl) in enumerate(cols))
        if pk_style == "constraint":
            ddl += ", PRIMARY KEY (" + ", ".join(cols[i][0] for i in pk) + ")"
        ddl += ")"
        r = rl.sql(ddl)
        if not r["ok"]:
            res["inconclusive"] = "create rejected"
            return res
        rl.sql("create table src(i int, f double, s varchar, b boolean)")
        rl.sql("insert into src values (7, 1.5, '7', true), (300, 2.0, 'abc', false), (NULL, NULL, NULL, NULL), (40000, -3.25, '1.5', true)")
        for k in range(nins):
            rl.sql("delete from t")
            mode = rng.choice(["values", "values", "subset", "select"])
            if mode == "select":
                pick = [rng.choice(["i", "f", "s", "b"]) for _ in cols]
                sql = f"insert into t select {', '.join(pick)} from src"
                srcrows = [(7, 1.5, '7', True), (300, 2.0, 'abc', False), (None, None, None, None), (40000, -3.25, '1.5', True)]
                kinds = {"i": "int", "f": "float", "s": "str", "b": "bool"}
                expected = []
                for row in srcrows:
                    e = []
                    for p in pick:
                        v = row["ifsb".index(p)]
                        e.append((kinds[p], "NULL" if v is None else (repr(v) if isinstance(v, str) else str(v).lower() if isinstance(v, bool) else str(v))))
                    expected.append(e)
                target = list(range(ncols))
            else:
                target = list(range(ncols)) if mode == "values" else sorted(rng.sample(range(ncols), rng.randint(1, ncols)))
                nrows = rng.randint(1, 3)
                expected = []
                rowsql = []
                for _ in range(nrows):
                    e = []
                    for _c in target:
                        kind = rng.choice(["int", "int", "float", "str", "bool", "null", "date"])
                        e.append((kind if kind != "null" else "null", rng.choice(SOURCES[kind])))
                    expected.append(e)
                    rowsql.append("(" + ", ".join(x[1] for x in e) + ")")
                collist = "" if mode == "values" else "(" + ", ".join(cols[c][0] for c in target) + ")"
                sql = f"insert into t{collist} values {', '.join(rowsql)}"
                if rng.random() < 0.1:
                    # a source whose width differs from the target list, or a target named twice: every value must have exactly
                    # one target, so the statement must be rejected (a value is never dropped, a column never left unfilled)
                    bad = rng.choice(["extra-value", "missing-value", "duplicate-target"])
                    if bad == "extra-value":
                        rowsql2 = [x[:-1] + ", 1)" for x in rowsql]
                        cl = collist
                    elif bad == "missing-value" and len(target) > 1:
                        rowsql2 = ["(" + ", ".join(x[1] for x in e[:-1]) + ")" for e in expected]
                        cl = collist
                    else:
                        bad = "duplicate-target"
                        names = [cols[c][0] for c in target]
                        cl = "(" + ", ".join(names + [names[0]]) + ")"
                        rowsql2 = [x[:-1] + ", 1)" for x in rowsql]
                    sql = f"insert into t{cl} values {', '.join(rowsql2)}"
                    r = rl.sql(sql)
                    res["evals"] += 1
                    res["malformed"] = res.get("malformed", 0) + 1
                    if r.get("dead"):
                        res["violations"].append(dict(signature="insert-kills-process", what=f"{ddl}; {sql}: {r['err'][:80]}", sql=sql, ddl=ddl, engine=engine))
                        break
                    if r["ok"]:
                        res["violations"].append(dict(signature=f"insert-accepted-with-{bad}", what=f"{ddl}; {sql}: accepted; table holds {rows_of(rl.r.sql('select * from t'))[:3]}", sql=sql, ddl=ddl, engine=engine))
                    elif r.get("kind") == "panic" or r.get("panics"):
                        site = panic_site(r.get("panics")[0]) if r.get("panics") else "?"
                        res["violations"].append(dict(signature=f"insert-panics:{site}", what=f"{ddl}; {sql}: {r.get('panics')}", sql=sql, ddl=ddl, engine=engine))
                    continue
            r = rl.sql(sql)
            res["evals"] += 1
            if r.get("dead"):
                res["violations"].append(dict(signature="insert-kills-process", what=f"{ddl}; {sql}: {r['err'][:80]}", sql=sql, ddl=ddl, engine=engine))
                break
            if not r["ok"]:
                res["rejected"] += 1
                if r.get("kind") == "panic" or r.get("panics"):
                    site = panic_site(r.get("panics")[0]) if r.get("panics") else "?"
                    res["violations"].append(dict(signature=f"insert-panics:{site}", what=f"{ddl}; {sql}: {r.get('panics')}", sql=sql, ddl=ddl, engine=engine))
                continue
            res["accepted"] += 1
            back = rl.r.sql("select * from t")
            if not back["ok"]:
                res["violations"].append(dict(signature="select-after-insert-fails", what=f"{ddl}; {sql}: {back.get('err')}", sql=sql, ddl=ddl, engine=engine))
                continue
            res["judged"] += 1
            res["distinct"].append(h([ddl, sql]))
            types = [tuple(ch["types"]) for ch in back["stmts"][-1]]
            want_types = tuple(VARIANT[t] for _, t, _ in cols)
            for ty in types:
                if ty != want_types:
                    res["violations"].append(dict(signature="stored-type-differs", what=f"{ddl}; {sql}: read back {ty}, declared {want_types}", sql=sql, ddl=ddl, engine=engine))
            got = norm_rows(rows_of(back))
            raw = rows_of(back)
            # match stored rows to inserted rows: same order is not guaranteed, use greedy matching
            unmatched = list(range(len(raw)))
            for e in expected:
                hit = None
                for j in unmatched:
                    ok = True
                    for pos, c in enumerate(target):
                        cell = raw[j][c]
                        if isinstance(cell, str) and cell[:2] == "s:":
                            cell = cell[2:]
                        if not same_value(e[pos][0] if e[pos][1] != "NULL" else "null", e[pos][1], cell, cols[c][1]):
                            ok = False
                            break
                    if ok and all(raw[j][c] is None for c in range(ncols) if c not in target):
                        hit = j
                        break
                if hit is None:
                    # which conversions are to blame: columns whose inserted value no stored row holds
                    lossy = set()
                    for pos, c in enumerate(target):
                        if e[pos][1] == "NULL":
                            continue
                        cells = [(x[c][2:] if isinstance(x[c], str) and x[c][:2] == "s:" else x[c]) for x in raw]
                        if not any(same_value(e[pos][0], e[pos][1], cell, cols[c][1]) for cell in cells):
                            lossy.add(f"{e[pos][0]}->{cols[c][1].split('(')[0]}")
                    what = f"{ddl}; {sql}: no stored row equals inserted {[x[1] for x in e]}; table holds {raw[:4]}"
                    for pair in sorted(lossy) or ["?"]:
                        res["violations"].append(dict(signature="stored-value-differs-from-inserted:" + pair, what=what, sql=sql, ddl=ddl, engine=engine))
                    break
                unmatched.remove(hit)
            for row in raw:
                for c, (n, t, nl) in enumerate(cols):
                    if t == "DECIMAL(10,2)" and isinstance(row[c], str) and row[c][:2] == "d:":
                        # the declared type is DECIMAL(10,2): a stored value with more than two significant fractional digits
                        # is not a value of that type
                        try:
                            if -Decimal(row[c][2:]).normalize().as_tuple().exponent > 2:
                                res["violations"].append(dict(signature="stored-value-outside-declared-type:decimal-scale", what=f"{ddl}; {sql}: column {n} DECIMAL(10,2) holds {row[c][2:]}", sql=sql, ddl=ddl, engine=engine))
                        except InvalidOperation:
                            pass
                    if row[c] is None and not nl:
                        res["violations"].append(dict(signature="null-in-not-null-column", what=f"{ddl}; {sql}: column {n} holds NULL", sql=sql, ddl=ddl, engine=engine))
                    if row[c] is None and c in pk:
                        res["violations"].append(dict(signature=f"null-in-primary-key-column:{pk_style}", what=f"{ddl}; {sql}: key column {n} holds NULL", sql=sql, ddl=ddl, engine=engine))
            if len(raw) != len(expected):
                res["violations"].append(dict(signature="row-count-differs", what=f"{ddl}; {sql}: {len(raw)} rows stored for {len(expected)} inserted", sql=sql, ddl=ddl, engine=engine))
        res["sample"] = dict(ddl=ddl, insert=sql[:120])
    except Exception as e:
        import traceback
        res["inconclusive"] = f"harness: {type(e).__name__}: {e} {traceback.format_exc()[-200:]}"
    finally:
        rl.close()
    return res


def dispatch(item):
    leg, args = item
    return leg_a(args) if leg == "A" else leg_b(args)


def sentinel(w):
    if "ddl" in w:
        rl = RL(w.get("engine", "mem"), DISK_LAYOUTS[0])
        try:
            rl.sql(w["ddl"])
            r = rl.sql(w["sql"])
            if not r["ok"]:
                return []
            back = rl.sql("select * from t")
            return [(w["signature"], f"{w['ddl']}; {w['sql']}: stored {back.get('rows')}")] if w["check"] in str(back.get("rows")) else []
        finally:
            rl.close()
    rl = RL(w.get("engine", "mem"), DISK_LAYOUTS[0])
    try:
        for s in w["setup"]:
            rl.sql(s)
        r = rl.cmd({"op": "plancheck", "sql": w["sql"]}, timeout=60)
        st = r.get("types_optimized")
        if r.get("exec") != "ok" or st is None:
            return []
        want = [static_variant(t) for t in st]
        for rt in r["runtime_types"]:
            if rt != want:
                kinds = sorted({f"{b}->{a}" for a, b in zip(rt, want) if a != b})
                return [("runtime-type-differs:" + ",".join(kinds), f"{w['sql'][:200]}: static {want} runtime {rt}")]
        return []
    finally:
        rl.close()


def run(tier, seed):
    rep = Report("C16", tier, seed, "exploration")
    na, nb, nq, nins = (160, 240, 20, 25) if tier == "quick" else (4000, 6000, 30, 40)
    rep.rule = ("leg A: generated queries, static output types (planner's type analysis on the live catalog) vs runtime array "
                "variants and chunk widths; leg B: INSERT VALUES / column subsets / INSERT..SELECT of int, float, string, boolean, "
                "date and NULL sources into columns of 8 types (nullable or NOT NULL) on both engines, read back and compared; "
                "distinct non-trivial = distinct executed queries with result chunks (A) plus distinct accepted inserts (B)")
    tot = dict(judged_a=0, judged_num=0, judged_b=0, accepted=0, rejected=0, temporal=0, temporal_inserts=0)
    items = [("A", (seed, i, nq)) for i in range(na)] + [("B", (seed, i, nins)) for i in range(nb)]
    for res in parallel_map(dispatch, items):
        rep.evaluations += res["evals"]
        rep.distinct.update(res["distinct"])
        if res["leg"] == "A":
            tot["judged_a"] += res["judged"]
            tot["judged_num"] += res["judged_num"]
            tot["temporal"] += res.get("judged_temporal", 0)
            tot["temporal_inserts"] += res.get("judged_temporal_inserts", 0)
        else:
            tot["judged_b"] += res["judged"]
            tot["accepted"] += res["accepted"]
            tot["rejected"] += res["rejected"]
        if res["inconclusive"]:
            rep.inc(res["inconclusive"][:60])
        if res["sample"]:
            rep.sample(res["sample"], limit=4)
        for v in res["violations"]:
            w = {k: v[k] for k in ("sql", "setup", "engine", "ddl") if k in v}
            rep.add_violation(Violation(v["signature"], v["what"], w))
    run_sentinels(rep, sentinel)
    rep.floor("numeric typed statements judged", tot["judged_num"], na * nq // 16)
    rep.coverage.update(numeric_typed_statements_judged=tot["judged_num"], queries_with_types_judged=tot["judged_a"], inserts_read_back=tot["judged_b"],
                        inserts_accepted=tot["accepted"], inserts_rejected=tot["rejected"],
                        temporal_casts_with_types_judged=tot["temporal"], temporal_inserts_read_back=tot["temporal_inserts"])
    rep.floor("queries judged", tot["judged_a"], na * nq // 3)
    rep.floor("inserts read back", tot["judged_b"], nb * nins // 6)
    rep.assumptions = ["an INSERT that is rejected is always acceptable; an accepted one must store exactly the inserted value",
                       "numeric equality is by value (1.5 = 1.50), strings to typed columns by parsing the string"]
    return rep.finish()


def replay(path):
    import json
    w = json.load(open(path))["witness"]
    out = sentinel(w)
    for s in out:
        print("VIOLATION-REPRO", s)
    return 1 if out else 0
