"""Seeded generators: schemas, data, statements and queries.

Queries are generated type-directed from a feature set (a dict of switches); every query
carries the set of feature tags it used. Output columns are always aliased c0..ck and ORDER BY
refers to those aliases, so oracles know the key columns.
"""
import random
import re

INT_TYPES = ("INT", "BIGINT", "SMALLINT")

# value domains: small, with duplicates and boundary values
INT_DOM = [-2, -1, 0, 1, 2, 3, 5, 7]
STR_DOM = ["a", "b", "ab", "B", "", "z", "abc", "a b"]


class Col:
    def __init__(self, name, typ, nullable=True, pk=False):
        self.name, self.typ, self.nullable, self.pk = name, typ, nullable, pk

    def ddl(self):
        s = f"{self.name} {self.typ}"
        if self.pk:
            s += " PRIMARY KEY"
        elif not self.nullable and not getattr(self, "implied_not_null", False):
            s += " NOT NULL"
        return s


class Table:
    def __init__(self, name, cols, pk_constraint=None):
        self.name, self.cols = name, cols
        self.rows = []
        # names of the key columns when the key is declared by a table constraint `PRIMARY KEY (a, b)`
        # (the only way to declare a composite key); those columns are NOT NULL by implication
        self.pk_constraint = pk_constraint

    def ddl(self):
        body = ', '.join(c.ddl() for c in self.cols)
        if self.pk_constraint:
            body += f", PRIMARY KEY ({', '.join(self.pk_constraint)})"
        return f"CREATE TABLE {self.name}({body})"

    def pk(self):
        for c in self.cols:
            if c.pk:
                return c
        return None


def lit(v, typ=None):
    if v is None:
        return "NULL"
    if isinstance(v, bool):
        return "true" if v else "false"
    if isinstance(v, str):
        if typ == "DATE":
            return "DATE '" + v + "'"
        return "'" + v.replace("'", "''") + "'"
    return str(v)


def gen_value(rng, col, row_idx=None, null_p=0.15):
    t = col.typ
    if col.nullable and not col.pk and rng.random() < null_p:
        return None
    if t in INT_TYPES:
        return rng.choice(INT_DOM)
    if t == "BOOLEAN":
        return rng.random() < 0.5
    if t == "VARCHAR":
        return rng.choice(STR_DOM)
    if t == "DOUBLE":
        return rng.choice([0.0, 1.5, -2.25, 3.0, 1e10, -0.5])
    if t.startswith("DECIMAL"):
        return rng.choice(["0", "1.5", "-2.25", "3.00", "10", "0.01"])
    if t == "DATE":
        return rng.choice(["2000-01-01", "1999-12-31", "2024-02-29", "1970-01-01", "2001-03-04"])
    raise ValueError(t)


def gen_schema(rng, ntables=None, types=("INT", "BIGINT", "BOOLEAN", "VARCHAR"), pk_p=0.5,
               max_cols=4, pk_types=("INT",), pk_first_only=False, notnull_p=0.2, prefix="t"):
    ntables = ntables or rng.randint(1, 3)
    tables = []
    for ti in range(ntables):
        ncols = rng.randint(2, max_cols)
        cols = []
        # at least one int column per table, so joins/aggregates have material
        typs = [rng.choice(types) for _ in range(ncols)]
        if not any(t in ("INT",) for t in typs):
            typs[rng.randrange(ncols)] = "INT"
        for ci, t in enumerate(typs):
            cols.append(Col(f"{'abdefghk'[ci]}{ti}", t, nullable=rng.random() >= notnull_p))
        if rng.random() < pk_p:
            cands = [i for i, c in enumerate(cols) if c.typ in pk_types]
            if pk_first_only:
                cands = [i for i in cands if i == 0]
            if cands:
                i = rng.choice(cands)
                cols[i].pk = True
                cols[i].nullable = False
        tables.append(Table(f"{prefix}{ti}", cols))
    return tables


def gen_rows(rng, table, n=None, max_rows=12, unique_pk=True, null_p=0.15, wide_pk=False):
    n = rng.choice([0, 1, 2, 3, 5, 8, max_rows]) if n is None else n
    rows = []
    used = set()
    pk = table.pk()
    for i in range(n):
        row = []
        ok = True
        for c in table.cols:
            v = gen_value(rng, c, null_p=null_p)
            if c.pk:
                if wide_pk:
                    # (the key column is not enforced unique: without unique_pk a small domain
                    # yields duplicate keys inside one INSERT and across INSERTs)
                    v = rng.randint(-50, 200) if unique_pk else rng.randint(0, 6)
                if unique_pk:
                    tries = 0
                    while v in used and tries < 30:
                        v = rng.randint(-50, 200) if (wide_pk or tries > 5) else gen_value(rng, c)
                        tries += 1
                    if v in used:
                        ok = False
                    used.add(v)
            row.append(v)
        if ok:
            rows.append(row)
    return rows


def insert_stmts(rng, table, rows, max_stmts=4):
    """Split rows over several INSERT statements (several row-sets on disk)."""
    if not rows:
        return []
    k = rng.randint(1, min(max_stmts, len(rows)))
    cuts = sorted(rng.sample(range(1, len(rows)), k - 1)) if k > 1 else []
    parts, prev = [], 0
    for c in cuts + [len(rows)]:
        parts.append(rows[prev:c])
        prev = c
    out = []
    for p in parts:
        vals = ", ".join("(" + ", ".join(lit(v, c.typ) for v, c in zip(r, table.cols)) + ")" for r in p)
        out.append(f"INSERT INTO {table.name} VALUES {vals}")
    return out


def setup_statements(rng, tables, max_rows=12, max_stmts=4, null_p=0.15, wide_pk=False, unique_pk=True):
    stmts = []
    for t in tables:
        stmts.append(t.ddl())
        t.rows = gen_rows(rng, t, max_rows=max_rows, null_p=null_p, wide_pk=wide_pk, unique_pk=unique_pk)
        stmts.extend(insert_stmts(rng, t, t.rows, max_stmts))
    return stmts


# ----------------------------------------------------------------------------------------------
# query generator

DEFAULT_FEATURES = dict(
    arith=True, div=True, case=True, in_list=True, between=True, isnull=True, not_=True,
    andor=True, str_cmp=True, like=False, bool_col_cond=False, mixed_int=True,
    join=True, outer_join=True, full_join=True, cross=True, self_join=True, three_way=True,
    agg=True, having=True, count_distinct=True, distinct=True, agg_empty=True,
    in_sub=True, not_in_sub=False, exists=True, not_exists=True, scalar_sub=True,
    derived=True, cte=True, order=True, limit=True, offset_no_limit=False, order_expr=True,
    cast=True, concat=True, group_expr=True, where_false=True, case_no_else=False,
    corr_in_sub=False, neg=True, null_lit=True, sum_=True, derived_limit=False, agg_in_list=True, in_sub_expr=True,
    sorted_join=True, join_mixed_key=True, order_hidden_pk=True, join_false_conjunct=True, bare_scan=True, join_mixed_num=True, outer_notnull_test=True, derived_twins=True,
)


_ALIAS_COL = re.compile(r"\b[a-z]\d+\.c\d+\b")
# an aggregate call over an argument without nested parentheses or with one level of them
_AGG_CALL = re.compile(r"\b(?:COUNT|SUM|MIN|MAX)\((?:[^()]|\([^()]*\))*\)")


class Q:
    def __init__(self, sql, tags, ncols, order=None, limited=False):
        self.sql, self.tags, self.ncols = sql, set(tags), ncols
        self.order = order or []    # [(col_index, desc)]
        self.limited = limited
        self.count_only = False     # LIMIT without ORDER BY: only the number of rows is determined


class QueryGen:
    def __init__(self, rng, tables, features=None):
        self.rng = rng
        self.tables = tables
        self.f = dict(DEFAULT_FEATURES)
        if features:
            self.f.update(features)
        self.tags = set()
        self.alias_n = 0
        # derived-table columns: alias.cN -> select item text in terms of base columns, and the
        # aggregate calls (text in terms of base columns) the derived tables in scope expose
        self.origin = {}
        self.inner_aggs = set()
        # second stream for shapes added later: the main stream (and with it every earlier case) is left as it was
        self.rng2 = random.Random(repr(rng.getstate()[1][:8]))

    def on(self, name, p=1.0):
        return self.f.get(name, False) and self.rng.random() < p

    def tag(self, t):
        self.tags.add(t)

    # ---- scopes: list of (sql_name, type, nullable)
    def table_scope(self, t, alias):
        return [(f"{alias}.{c.name}", c.typ, c.nullable and not c.pk) for c in t.cols]

    def cols_of(self, scope, pred):
        return [s for s in scope if pred(s[1])]

    # ---- expressions
    def int_lit(self):
        return str(self.rng.choice(INT_DOM))

    def int_expr(self, scope, d=0):
        r = self.rng
        ints = self.cols_of(scope, lambda t: t in ("INT",) or (t in INT_TYPES and self.f["mixed_int"]))
        choices = []
        if ints:
            choices += ["col"] * 5
        choices += ["lit"] * 2
        if d < 2:
            if self.f["arith"]:
                choices += ["arith"] * 2
            if self.f["div"]:
                choices += ["div"]
            if self.f["case"]:
                choices += ["case"]
            if self.f["neg"]:
                choices += ["neg"]
            if self.f["cast"] and ints:
                choices += ["cast"]
            if self.f.get("algebra", True) and ints:
                choices += ["algebra"]
        c = r.choice(choices)
        if c == "algebra":
            # shapes the algebraic simplification rules are written for (x - 0, 0 - x, x * (y + z),
            # x*y + x*z, (x * y) * z, x / x, x + x)
            self.tag("algebra")
            x, y, z = (self.int_expr(scope, d + 1) for _ in range(3))
            return r.choice([f"({x} - 0)", f"(0 - {x})", f"({x} * ({y} + {z}))", f"(({x} * {y}) + ({x} * {z}))",
                             f"(({x} * {y}) * {z})", f"({x} / {x})", f"({x} + {x})", f"(({x} + {y}) - {y})", f"({x} * 0)"])
        if c == "col":
            return r.choice(ints)[0]
        if c == "lit":
            if self.on("null_lit", 0.05):
                self.tag("null_lit")
                return "NULL"
            return self.int_lit()
        if c == "arith":
            self.tag("arith")
            op = r.choice(["+", "-", "*"])
            return f"({self.int_expr(scope, d + 1)} {op} {self.int_expr(scope, d + 1)})"
        if c == "div":
            self.tag("div")
            op = r.choice(["/", "%"])
            return f"({self.int_expr(scope, d + 1)} {op} {self.int_expr(scope, d + 1)})"
        if c == "neg":
            self.tag("neg")
            return f"(- {self.int_expr(scope, d + 1)})"
        if c == "cast":
            self.tag("cast")
            return f"CAST({r.choice(ints)[0]} AS {r.choice(['INT', 'BIGINT'])})"
        if c == "case":
            self.tag("case")
            if self.on("case_no_else", 0.3):
                self.tag("case_no_else")
                return f"(CASE WHEN {self.bool_expr(scope, d + 1)} THEN {self.int_expr(scope, d + 1)} END)"
            return (f"(CASE WHEN {self.bool_expr(scope, d + 1)} THEN {self.int_expr(scope, d + 1)} "
                    f"ELSE {self.int_expr(scope, d + 1)} END)")
        raise AssertionError(c)

    def lhs_int(self, scope, d):
        """Left operand of a predicate; with feature const_pred off it always refers to a column, so
        that no predicate is a constant the optimizer can fold away."""
        e = self.int_expr(scope, d)
        if self.f.get("const_pred", True):
            return e
        for _ in range(8):
            if "." in e:
                return e
            e = self.int_expr(scope, d)
        ints = self.cols_of(scope, lambda t: t in INT_TYPES)
        return ints[0][0] if ints else e

    def str_expr(self, scope, d=0):
        r = self.rng
        strs = self.cols_of(scope, lambda t: t == "VARCHAR")
        if strs and r.random() < 0.7:
            return r.choice(strs)[0]
        if self.on("concat", 0.2) and strs and d < 2:
            self.tag("concat")
            return f"({r.choice(strs)[0]} || {lit(r.choice(STR_DOM))})"
        return lit(r.choice(STR_DOM))

    def cmp(self, scope, d):
        r = self.rng
        op = r.choice(["=", "<>", "<", "<=", ">", ">="])
        strs = self.cols_of(scope, lambda t: t == "VARCHAR")
        if self.f["str_cmp"] and strs and r.random() < 0.25:
            self.tag("str_cmp")
            return f"({r.choice(strs)[0]} {op} {self.str_expr(scope, d + 1)})"
        return f"({self.lhs_int(scope, d + 1)} {op} {self.int_expr(scope, d + 1)})"

    def bool_expr(self, scope, d=0):
        r = self.rng
        bools = self.cols_of(scope, lambda t: t == "BOOLEAN")
        choices = ["cmp"] * 5
        if bools:
            choices += ["boolcol"] * 2
        if d < 2:
            if self.f["andor"]:
                choices += ["and", "or"]
            if self.f["not_"]:
                choices += ["not"]
        if self.f["isnull"]:
            choices += ["isnull"]
        if self.f["in_list"]:
            choices += ["in_list"]
        if self.f["between"]:
            choices += ["between"]
        if self.f["like"] and self.cols_of(scope, lambda t: t == "VARCHAR"):
            choices += ["like"]
        icols = self.cols_of(scope, lambda t: t == "INT")
        if self.f.get("same_col_bounds", True) and icols:
            choices += ["bounds"]
        c = r.choice(choices)
        if c == "bounds":
            # two constant bounds on one column (same or opposite direction): the range folding rules
            self.tag("same_col_bounds")
            col = r.choice(icols)[0]
            o1, o2 = r.choice([">", ">=", "<", "<="]), r.choice([">", ">=", "<", "<="])
            return f"(({col} {o1} {self.int_lit()}) AND ({col} {o2} {self.int_lit()}))"
        if c == "cmp":
            return self.cmp(scope, d)
        if c == "boolcol":
            col = r.choice(bools)[0]
            if self.f["bool_col_cond"] and r.random() < 0.5:
                self.tag("bool_col_cond")
                return col
            self.tag("bool_col")
            return f"({col} = {r.choice(['true', 'false'])})"
        if c == "and":
            self.tag("and")
            return f"({self.bool_expr(scope, d + 1)} AND {self.bool_expr(scope, d + 1)})"
        if c == "or":
            self.tag("or")
            return f"({self.bool_expr(scope, d + 1)} OR {self.bool_expr(scope, d + 1)})"
        if c == "not":
            self.tag("not")
            return f"(NOT {self.bool_expr(scope, d + 1)})"
        if c == "isnull":
            self.tag("isnull")
            e = r.choice(scope)[0] if r.random() < 0.7 else self.lhs_int(scope, d + 1)
            return f"({e} IS {'NOT ' if r.random() < 0.4 else ''}NULL)"
        if c == "in_list":
            self.tag("in_list")
            items = ", ".join(self.int_lit() for _ in range(r.randint(1, 3)))
            return f"({self.lhs_int(scope, d + 1)} {'NOT ' if r.random() < 0.3 else ''}IN ({items}))"
        if c == "between":
            self.tag("between")
            return f"({self.lhs_int(scope, d + 1)} BETWEEN {self.int_lit()} AND {self.int_lit()})"
        if c == "like":
            self.tag("like")
            col = r.choice(self.cols_of(scope, lambda t: t == "VARCHAR"))[0]
            return f"({col} LIKE {lit(r.choice(['a%', '%b', '%', 'a_', '_']))})"
        raise AssertionError(c)

    def any_expr(self, scope):
        """(sql, type)"""
        r = self.rng
        x = r.random()
        if x < 0.55:
            return self.int_expr(scope), "INT"
        if x < 0.75:
            s = r.choice(scope)
            return s[0], s[1]
        if x < 0.9:
            return self.bool_expr(scope, 1), "BOOLEAN"
        return self.str_expr(scope), "VARCHAR"

    # ---- FROM clause
    def new_alias(self, p="x"):
        self.alias_n += 1
        return f"{p}{self.alias_n}"

    def from_clause(self):
        """returns (sql, scope)"""
        r = self.rng
        t0 = r.choice(self.tables)
        a0 = self.new_alias()
        if self.on("sorted_join", 0.06):
            sj = self.sorted_join()
            if sj:
                return sj
        twins = None
        if self.f.get("derived_twins") and self.rng2.random() < 0.06:
            twins = self.derived_twins(t0, a0)
        if twins:
            sql, scope = twins
        elif self.on("derived", 0.12):
            self.tag("derived")
            # (no constant predicates inside a derived table: `(x IS NULL) AND (1 > 2)` folds to a
            # constant select item, the known constant-column-through-outer-join finding)
            sub = QueryGen(r, self.tables, dict(self.f, const_pred=False))
            sub.alias_n = self.alias_n + 10
            # every select item of a derived table refers to a column: a constant item on the
            # NULL-padded side of an outer join is a known finding (C01) with its own sentinel
            for _ in range(8):
                q = sub.select_core(allow_order=False, max_items=3)
                if all("." in part for part in q["items"]):
                    break
            self.tags |= sub.tags
            scope = [(f"{a0}.c{i}", ty, True) for i, ty in enumerate(q["types"])]
            for i, item in enumerate(q["items"]):
                self.origin[f"{a0}.c{i}"] = sub.expand(item)
                self.inner_aggs |= set(_AGG_CALL.findall(sub.expand(item)))
            self.inner_aggs |= sub.inner_aggs
            inner = q["sql"]
            if self.on("derived_limit", 0.35):
                # a LIMIT under a total order inside the derived table: filters above it must not be
                # pushed below it
                self.tag("derived_limit")
                keys = ", ".join(f"c{i}{' DESC' if r.random() < 0.3 else ''}" for i in range(q["n"]))
                inner += f" ORDER BY {keys} LIMIT {r.choice([1, 2, 3, 5])}"
                if r.random() < 0.3:
                    inner += f" OFFSET {r.choice([1, 2])}"
            sql = f"({inner}) AS {a0}"
        else:
            sql, scope = f"{t0.name} AS {a0}", self.table_scope(t0, a0)
            self.single_pk = f"{a0}.{t0.pk().name}" if t0.pk() else None
        njoin = 0
        if self.on("join", 0.45):
            self.single_pk = None
            njoin = 2 if self.on("three_way", 0.25) else 1
        for _ in range(njoin):
            if self.on("self_join", 0.2):
                t1 = t0
                self.tag("self_join")
            else:
                t1 = r.choice(self.tables)
            a1 = self.new_alias()
            s1 = self.table_scope(t1, a1)
            kinds = ["JOIN"] * 3
            if self.f["outer_join"]:
                kinds += ["LEFT JOIN", "RIGHT JOIN"]
            if self.f["full_join"]:
                kinds += ["FULL JOIN"]
            if self.f["cross"]:
                kinds += ["CROSS JOIN"]
            k = r.choice(kinds)
            self.tag("join:" + k.split()[0].lower())
            if k == "CROSS JOIN":
                sql += f" CROSS JOIN {t1.name} AS {a1}"
            else:
                li = self.cols_of(scope, lambda t: t in INT_TYPES)
                ri = self.cols_of(s1, lambda t: t in INT_TYPES)
                conds = []
                if li and ri and self.on("join_mixed_key", 0.07):
                    # the whole condition is one equality whose one side mixes columns of both inputs
                    # (no equi-join key can be extracted from it)
                    self.tag("join_mixed_key")
                    l, rr, l2 = r.choice(li), r.choice(ri), r.choice(li)
                    side = f"({rr[0]} {r.choice(['+', '-', '*'])} {l2[0]})"
                    conds.append(f"{l[0]} = {side}" if r.random() < 0.5 else f"{side} = {l[0]}")
                elif li and ri and r.random() < 0.85:
                    l, rr = r.choice(li), r.choice(ri)
                    if l[1] != rr[1]:
                        if not self.f["mixed_int"]:
                            rr = l if False else rr
                        self.tag("join_mixed_int")
                    if self.f.get("join_mixed_num") and self.rng2.random() < 0.2:
                        # an equi-join key pair of different numeric types (INT = DOUBLE, DECIMAL = INT ...): `=` compares them
                        # numerically, a hash table compares key values
                        ln = self.cols_of(scope, lambda t: t.startswith(("DOUBLE", "DECIMAL")))
                        rn = self.cols_of(s1, lambda t: t.startswith(("DOUBLE", "DECIMAL")))
                        if ln or rn:
                            self.tag("join_mixed_num")
                            if ln and (not rn or self.rng2.random() < 0.5):
                                l = self.rng2.choice(ln)
                            else:
                                rr = self.rng2.choice(rn)
                    conds.append(f"{l[0]} = {rr[0]}")
                    if r.random() < 0.15 and len(li) > 1 and len(ri) > 1:
                        l2, r2 = r.choice(li), r.choice(ri)
                        conds.append(f"{l2[0]} = {r2[0]}")
                        self.tag("join_multikey")
                if not conds or (r.random() < 0.3 and "join_mixed_key" not in self.tags):
                    conds.append(self.bool_expr(scope + s1, 1))
                    self.tag("join_residual")
                if self.f.get("const_pred", True) and self.on("join_false_conjunct", 0.05):
                    # a conjunct that folds to FALSE next to conjuncts over both inputs: the condition's class
                    # then "uses no columns" while still holding the other conjuncts (pruning + condition push-down)
                    self.tag("join_false_conjunct")
                    conds.insert(r.randint(0, len(conds)), r.choice(["(2 BETWEEN 1 AND 1)", "(1 = 0)", "(3 < 3)", "(NOT (2 = 2))"]))
                sql += f" {k} {t1.name} AS {a1} ON " + " AND ".join(conds)
            scope = scope + s1
        return sql, scope

    def derived_twins(self, t, a_out):
        """(SELECT e AS c0, e' AS c1, (e' + 1) AS c2, col AS c3 FROM t) AS x where e and e' are one expression for the optimizer after
        a rewrite (x + x / x * 2, x - 0 / x, x + y / y + x ...): select items that end up in one e-class while the outer query
        uses only some of them (column pruning and push-down name columns by class)."""
        r = self.rng2
        ints = [c for c in t.cols if c.typ == "INT"]
        if not ints:
            return None
        a_in = self.new_alias()
        x = f"{a_in}.{r.choice(ints).name}"
        y = f"{a_in}.{r.choice(ints).name}"
        e, e2 = r.choice([(f"({x} + {x})", f"({x} * 2)"), (f"({x} - 0)", x), (f"({x} * 1)", x), (f"({x} + 0)", x), (f"(- (- {x}))", x),
                          (f"({x} + {y})", f"({y} + {x})"), (f"({x} * {y})", f"({y} * {x})"), (f"({x} * ({y} + 1))", f"(({x} * {y}) + ({x} * 1))"),
                          (f"(0 - {x})", f"(- {x})"), (f"({x} * -1)", f"(- {x})")])
        if r.random() < 0.5:
            e, e2 = e2, e
        other = r.choice(t.cols)
        items = [(e, "INT"), (e2, "INT"), (f"({e2} + 1)", "INT"), (f"{a_in}.{other.name}", other.typ)]
        r.shuffle(items)
        self.tag("derived")
        self.tag("derived_twins")
        for i, (it, _) in enumerate(items):
            self.origin[f"{a_out}.c{i}"] = it
        sel = ", ".join(f"{it} AS c{i}" for i, (it, _) in enumerate(items))
        return f"(SELECT {sel} FROM {t.name} AS {a_in}) AS {a_out}", [(f"{a_out}.c{i}", ty, True) for i, (_, ty) in enumerate(items)]

    def sorted_join(self):
        """(SELECT k, v FROM a ORDER BY k [DESC]) AS x <join> (SELECT k, v FROM b ORDER BY k [DESC]) AS y ON x.k = y.k:
        inputs that arrive sorted (either direction) are what the order-aware rules (merge join, sort
        aggregation, useless-order) key on."""
        r = self.rng
        sides = []
        both_asc = self.rng2.random() < 0.4     # both inputs ascending (what a merge join needs), often with a second sort column
        for _ in range(2):
            t = r.choice(self.tables)
            ints = [c for c in t.cols if c.typ == "INT"]
            if not ints:
                return None
            kcol = r.choice(ints)
            other = r.choice(t.cols)
            a_in, a_out = self.new_alias(), self.new_alias()
            direction = " DESC" if r.random() < 0.5 else ""
            if both_asc:
                # a secondary order of the input: a join emits it per pair of rows, not per key
                direction = ", c1" if self.rng2.random() < 0.7 else ""
            where = f" WHERE {self.bool_expr(self.table_scope(t, a_in), 1)}" if r.random() < 0.3 else ""
            sql = f"(SELECT {a_in}.{kcol.name} AS c0, {a_in}.{other.name} AS c1 FROM {t.name} AS {a_in}{where} ORDER BY c0{direction}) AS {a_out}"
            self.origin[f"{a_out}.c0"] = f"{a_in}.{kcol.name}"
            self.origin[f"{a_out}.c1"] = f"{a_in}.{other.name}"
            sides.append((sql, [(f"{a_out}.c0", "INT", True), (f"{a_out}.c1", other.typ, True)]))
        kinds = ["JOIN"] * 3 + (["LEFT JOIN", "RIGHT JOIN"] if self.f["outer_join"] else []) + (["FULL JOIN"] if self.f["full_join"] else [])
        k = r.choice(kinds)
        self.tag("sorted_join")
        self.tag("derived")
        self.tag("join:" + k.split()[0].lower())
        cond = f"{sides[0][1][0][0]} = {sides[1][1][0][0]}"
        self.sj_cols = [c[0] for c in sides[0][1]] + [c[0] for c in sides[1][1]]
        self.sj_types = [c[1] for c in sides[0][1]] + [c[1] for c in sides[1][1]]
        if r.random() < 0.2:
            cond += " AND " + self.bool_expr(sides[0][1] + sides[1][1], 1)
            self.tag("join_residual")
        return f"{sides[0][0]} {k} {sides[1][0]} ON {cond}", sides[0][1] + sides[1][1]

    # ---- subquery predicates
    def subquery_pred(self, scope):
        r = self.rng
        t = r.choice(self.tables)
        a = self.new_alias("s")
        s = self.table_scope(t, a)
        ints_in = self.cols_of(s, lambda ty: ty == "INT")
        ints_out = self.cols_of(scope, lambda ty: ty == "INT")
        kinds = []
        if ints_in and ints_out:
            if self.f["in_sub"]:
                kinds.append("in")
            if self.f["not_in_sub"]:
                kinds.append("not_in")
            if self.f["exists"]:
                kinds.append("exists")
            if self.f["not_exists"]:
                kinds.append("not_exists")
            if self.f["scalar_sub"]:
                kinds.append("scalar")
        if not kinds:
            return None
        k = r.choice(kinds)
        self.tag("sub:" + k)
        inner_where = ""
        if r.random() < 0.5:
            inner_where = f" WHERE {self.bool_expr(s, 1)}"
        if k in ("in", "not_in"):
            neg = "NOT " if k == "not_in" else ""
            if self.on("corr_in_sub", 0.3):
                self.tag("corr_in_sub")
                o = r.choice(ints_out)[0]
                inner_where = f" WHERE {r.choice(ints_in)[0]} {r.choice(['=', '<', '>'])} {o}"
            item = r.choice(ints_in)[0]
            if self.on("in_sub_expr", 0.3):
                # a computed (non-aggregate) select item in the subquery
                self.tag("in_sub_expr")
                item = f"({item} {r.choice(['+', '-', '*'])} {r.randint(1, 3)})"
            return f"({r.choice(ints_out)[0]} {neg}IN (SELECT {item} FROM {t.name} AS {a}{inner_where}))"
        if k in ("exists", "not_exists"):
            neg = "NOT " if k == "not_exists" else ""
            corr = f"{r.choice(ints_in)[0]} = {r.choice(ints_out)[0]}"
            extra = ""
            if r.random() < 0.5:
                # a further conjunct over the inner table, over the outer row only, or over both
                x = r.random()
                which = s if x < 0.4 else (scope if x < 0.7 else scope + s)
                if which is not s:
                    self.tag("exists_outer_conjunct")
                extra = f" AND {self.bool_expr(which, 1)}"
            return f"({neg}EXISTS (SELECT 1 FROM {t.name} AS {a} WHERE {corr}{extra}))"
        if k == "scalar":
            if not self.f.get("scalar_sub_where", True):
                inner_where = ""
            agg = r.choice(["MIN", "MAX", "COUNT"])
            return (f"({r.choice(ints_out)[0]} {r.choice(['=', '<', '>', '<=', '>='])} "
                    f"(SELECT {agg}({r.choice(ints_in)[0]}) FROM {t.name} AS {a}{inner_where}))")

    def expand(self, text):
        """text with every derived-table column replaced by the select item it stands for"""
        return _ALIAS_COL.sub(lambda m: self.origin.get(m.group(0), m.group(0)), text)

    def repeats_inner_agg(self, agg_sql):
        """True when this aggregate call is textually the aggregate a derived table in scope already
        computes (SELECT COUNT(x.c0) FROM (SELECT b AS c0, COUNT(b) AS c1 ... GROUP BY b) AS x GROUP BY x.c1):
        the two calls are one expression for risinglight (known finding C02
        outer-aggregate-identical-to-derived-table-aggregate, kept by its sentinel)."""
        if not self.inner_aggs:
            return False
        return any(call in self.inner_aggs for call in _AGG_CALL.findall(self.expand(agg_sql)))

    # ---- SELECT core
    def select_core(self, allow_order=True, max_items=4):
        r = self.rng
        frm, scope = self.from_clause()
        where = []
        if r.random() < 0.6:
            where.append(self.bool_expr(scope))
        if self.on("where_false", 0.04):
            self.tag("where_false")
            where.append("(1 = 0)")
        if (self.f["in_sub"] or self.f["exists"] or self.f["scalar_sub"]) and r.random() < 0.2:
            p = self.subquery_pred(scope)
            if p:
                where.append(p)
        notnull_test = None
        if self.f.get("outer_notnull_test") and ({"join:left", "join:right", "join:full"} & self.tags) and self.rng2.random() < 0.3:
            # IS [NOT] NULL over a column that is declared NOT NULL / PRIMARY KEY, above an outer join: on the NULL-padded side the
            # column is NULL all the same (the anti-join idiom `LEFT JOIN ... WHERE r.key IS NULL`)
            nn = [c for c in scope if not c[2]]
            if nn:
                self.tag("outer_notnull_test")
                notnull_test = f"({self.rng2.choice(nn)[0]} IS {'NOT ' if self.rng2.random() < 0.4 else ''}NULL)"
                if self.rng2.random() < 0.6:
                    where.append(notnull_test)
                    notnull_test = None
        where_sql = (" WHERE " + " AND ".join(where)) if where else ""
        items, types = [], []
        group_sql = having_sql = ""
        distinct = ""
        if self.on("agg", 0.3):
            self.tag("agg")
            gcols = []
            if r.random() < 0.7:
                for _ in range(r.randint(1, 2)):
                    if self.on("group_expr", 0.15):
                        self.tag("group_expr")
                        gcols.append((self.int_expr(scope, 1), "INT"))
                    else:
                        s = r.choice(scope)
                        gcols.append((s[0], s[1]))
            else:
                self.tag("agg_nogroup")
            seen = set()
            gcols = [g for g in gcols if not (g[0] in seen or seen.add(g[0]))]
            for g in gcols:
                items.append(g[0])
                types.append(g[1])
            aggs = []
            for _ in range(r.randint(1, 3)):
                aggs.append(self.fresh_agg(scope))
            for a, ty in aggs:
                if ty == "INT" and self.on("agg_in_list", 0.12):
                    # an aggregate as the left operand of an IN list (a BOOLEAN select item)
                    self.tag("agg_in_list")
                    a, ty = f"({a} IN ({self.int_lit()}, {self.int_lit()}, {r.randint(0, 3)}))", "BOOLEAN"
                items.append(a)
                types.append(ty)
            if gcols:
                group_sql = " GROUP BY " + ", ".join(g[0] for g in gcols)
            if self.on("having", 0.3):
                self.tag("having")
                a, _ = self.fresh_agg(scope, int_only=True)
                having_sql = f" HAVING {a} {r.choice(['>', '<', '=', '>=', '<>'])} {self.int_lit()}"
        else:
            n = r.randint(1, max_items)
            for _ in range(n):
                e, ty = self.any_expr(scope)
                items.append(e)
                types.append(ty)
            if getattr(self, "sj_cols", None) and allow_order and self.rng2.random() < 0.6:
                # the four columns of a join of two sorted inputs, ordered by one side's key and second column (the order the
                # input arrived in): an order the join does not preserve under duplicate keys
                items, types = list(self.sj_cols), list(self.sj_types)
                side = 2 if self.rng2.random() < 0.6 else 0
                self.sj_order = [(side, False), (side + 1, False)]
            if notnull_test:
                items.append(notnull_test)
                types.append("BOOLEAN")
            if self.on("distinct", 0.12):
                self.tag("distinct")
                distinct = "DISTINCT "
        sel = ", ".join(f"{e} AS c{i}" for i, e in enumerate(items))
        sql = f"SELECT {distinct}{sel} FROM {frm}{where_sql}{group_sql}{having_sql}"
        return dict(sql=sql, types=types, n=len(items), items=items)

    def bare_query(self):
        """LIMIT / ORDER BY / nothing directly above a plain column scan of one table (what rules keyed on `(limit … (scan …))`,
        `(order … (scan …))` and on the scan's row estimate see), drawn from the second stream."""
        main, self.rng = self.rng, self.rng2
        try:
            r = self.rng
            self.tag("bare_scan")
            t = max(r.sample(self.tables, min(2, len(self.tables))), key=lambda t: len(getattr(t, "rows", None) or []))
            nrows = len(getattr(t, "rows", None) or [])
            around = [k for k in (nrows - 1, nrows, nrows + 1, nrows // 2) if k >= 1]   # limits around the real row count
            a = self.new_alias()
            scope = self.table_scope(t, a)
            cols = r.sample(scope, r.randint(1, len(scope)))
            n = len(cols)
            sql = "SELECT " + ", ".join(f"{c[0]} AS c{i}" for i, c in enumerate(cols)) + f" FROM {t.name} AS {a}"
            if r.random() < 0.25:
                sql += " WHERE " + self.bool_expr(scope)
            k = r.random()
            if k < 0.55 and self.f.get("unordered_limit"):
                self.tag("unordered_limit")
                sql += f" LIMIT {r.choice([1, 2, 3, 5, 100] + around)}"
                q = Q(sql, self.tags, n, [], True)
                q.count_only = True
                return q
            if k < 0.85 and self.f.get("order"):
                self.tag("order")
                idx = list(range(n))
                r.shuffle(idx)
                order = [(i, r.random() < 0.4) for i in idx]
                sql += " ORDER BY " + ", ".join(f"c{i}{' DESC' if d else ''}" for i, d in order)
                limited = False
                if self.f.get("limit") and r.random() < 0.7:
                    self.tag("limit")
                    limited = True
                    sql += f" LIMIT {r.choice([0, 1, 2, 3, 5] + around)}"
                    if r.random() < 0.4:
                        sql += f" OFFSET {r.choice([0, 1, 2, 7])}"
                return Q(sql, self.tags, n, order, limited)
            return Q(sql, self.tags, n, [], False)
        finally:
            self.rng = main

    def fresh_agg(self, scope, int_only=False):
        for _ in range(8):
            a = self.agg_expr(scope, int_only)
            if not self.repeats_inner_agg(a[0]):
                return a
        self.tag("agg:count_star")
        return "COUNT(*)", "INT"

    def agg_expr(self, scope, int_only=False):
        r = self.rng
        ints = self.cols_of(scope, lambda t: t in INT_TYPES)
        kinds = ["count_star"]
        if ints:
            kinds += ["count", "min", "max"]
            if self.f["sum_"]:
                kinds += ["sum", "sum"]
            if self.f["count_distinct"]:
                kinds += ["count_distinct"]
        if ints and self.f.get("avg", False):
            kinds += ["avg"]
        k = r.choice(kinds)
        self.tag("agg:" + k)
        if k == "avg":
            return f"AVG({r.choice(ints)[0]})", "INT"
        if k == "count_star":
            return "COUNT(*)", "INT"
        arg = r.choice(ints)[0]
        if r.random() >= 0.75:
            # (aggregates over constants are excluded: known finding C17 agg-over-constant)
            for _ in range(5):
                e = self.int_expr(scope, 1)
                if "." in e:
                    arg = e
                    break
        if k == "count":
            return f"COUNT({arg})", "INT"
        if k == "count_distinct":
            return f"COUNT(DISTINCT {arg})", "INT"
        if k in ("min", "max") and not int_only and r.random() < 0.3:
            s = r.choice(scope)
            if s[1] != "BOOLEAN":
                return f"{k.upper()}({s[0]})", s[1]
        return f"{k.upper()}({arg})", "INT"

    def query(self):
        """A complete query."""
        r = self.rng
        self.tags = set()
        self.origin, self.inner_aggs = {}, set()
        self.single_pk = None
        if self.f.get("bare_scan") and self.rng2.random() < 0.07:
            return self.bare_query()
        self.sj_cols = self.sj_order = None
        core = self.select_core()
        if self.sj_order and not ({"agg", "distinct"} & self.tags):
            self.tag("sorted_join_order")
            sql = core["sql"] + " ORDER BY " + ", ".join(self.sj_cols[i] for i, _ in self.sj_order)   # (cN alone is ambiguous here)
            return Q(sql, self.tags, core["n"], list(self.sj_order), False)
        hidden_pk = self.single_pk if not ({"agg", "distinct", "derived", "sorted_join"} & self.tags) else None
        sql = core["sql"]
        n = core["n"]
        if self.on("cte", 0.08):
            self.tag("cte")
            a = self.new_alias("w")
            cols = ", ".join(f"{a}.c{i} AS c{i}" for i in range(n))
            sql = f"WITH {a} AS ({sql}) SELECT {cols} FROM {a}"
        order, limited = [], False
        if hidden_pk and "cte" not in self.tags and self.on("order_hidden_pk", 0.3):
            # ordered by the (unique) primary key, which is not (necessarily) in the select list: storage
            # order, sort elimination and column pruning meet here; the whole sequence is determined
            self.tag("order_hidden_pk")
            sql += f" ORDER BY {hidden_pk}{' DESC' if r.random() < 0.4 else ''}"
            if r.random() < 0.3:
                self.tag("limit")
                limited = True
                sql += f" LIMIT {r.choice([1, 2, 3, 5])}"
                if r.random() < 0.4:
                    sql += f" OFFSET {r.choice([1, 2])}"
            return Q(sql, self.tags, n, [(-1, False)], limited)
        if self.on("order", 0.35):
            self.tag("order")
            want_limit = self.on("limit", 0.5)
            want_offset_only = (not want_limit) and self.on("offset_no_limit", 0.2)
            if want_limit or want_offset_only:
                # total order: all output columns are keys
                idx = list(range(n))
                r.shuffle(idx)
            else:
                idx = r.sample(range(n), r.randint(1, n))
            order = [(i, r.random() < 0.4) for i in idx]
            sql += " ORDER BY " + ", ".join(f"c{i}{' DESC' if d else ''}" for i, d in order)
            if want_limit:
                self.tag("limit")
                limited = True
                sql += f" LIMIT {r.choice([0, 1, 2, 3, 5, 100])}"
                if r.random() < 0.5:
                    self.tag("offset")
                    sql += f" OFFSET {r.choice([0, 1, 2, 7])}"
            elif want_offset_only:
                self.tag("offset_no_limit")
                limited = True
                sql += f" OFFSET {r.choice([0, 1, 2])}"
        simple = not any(t.startswith(("join:", "agg", "distinct", "derived", "cte", "sub:", "sorted_join")) for t in self.tags)
        if not order and not limited and self.on("unordered_limit", 0.45 if simple else 0.12):
            # LIMIT without ORDER BY: which rows come back is not determined, how many is (min(n, N)); a consumer
            # sets Q.count_only and compares the number of rows
            self.tag("unordered_limit")
            sql += f" LIMIT {r.choice([1, 2, 3, 5, 8, 13, 100])}"
            q = Q(sql, self.tags, n, [], True)
            q.count_only = True
            return q
        return Q(sql, self.tags, n, order, limited)
