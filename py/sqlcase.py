"""Running generated SQL cases on risinglight runners and on SQLite; result normalisation."""
import sqlite3

from common import Runner, RunnerDied, RunnerTimeout, rows_of, scratch_dir, rm, row_key

DISK_LAYOUTS = [
    dict(block=64, rowset=256, crc=True, first_key=True),
    dict(block=32, rowset=120, crc=False, first_key=True),
    dict(block=256, rowset=2048, crc=True, first_key=False),
    dict(block=4096, rowset=1 << 20, crc=True, first_key=True),
    dict(block=16384, rowset=256 << 20, crc=True, first_key=True),
]


def norm_cell(c):
    """risinglight typed cell -> comparable python value (bool -> int, 's:x' -> 'x')."""
    if c is None:
        return None
    if isinstance(c, bool):
        return int(c)
    if isinstance(c, str) and len(c) >= 2 and c[1] == ":":
        if c[0] == "s":
            return c[2:]
        if c[0] == "d":
            # decimals are compared by value, not by scale (1.5 == 1.500)
            from decimal import Decimal
            try:
                d = Decimal(c[2:]).normalize()
                return "d:" + format(d, "f")
            except Exception:
                return c
        return c
    return c


def norm_rows(rows):
    return [tuple(norm_cell(c) for c in r) for r in rows]


def ms(rows):
    return sorted(rows, key=row_key)


class RL:
    """A risinglight database in a fresh runner process."""

    def __init__(self, engine="mem", layout=None, mt=0, keep_dir=None):
        self.r = Runner(mt=mt)
        self.dir = None
        if engine == "mem":
            resp = self.r.cmd({"op": "open", "engine": "mem"})
        else:
            self.dir = keep_dir or scratch_dir("db")
            o = dict(layout or DISK_LAYOUTS[0])
            o.update({"op": "open", "engine": "disk", "path": self.dir + "/db"})
            resp = self.r.cmd(o)
        if not resp.get("ok"):
            raise RuntimeError(f"open failed: {resp}")

    def sql(self, s, timeout=60.0):
        """-> dict(ok, rows|kind/err, panics, raw). A dead or stuck runner is an outcome."""
        try:
            resp = self.r.sql(s, timeout=timeout)
        except RunnerDied as e:
            return dict(ok=False, kind="abort", err=f"runner died rc={e.rc}: {e.stderr_tail[-300:]}", panics=[], dead=True)
        except RunnerTimeout:
            return dict(ok=False, kind="timeout", err="watchdog", panics=[], dead=True)
        out = dict(ok=resp["ok"], panics=resp.get("panics", []), raw=resp)
        if resp["ok"]:
            out["rows"] = norm_rows(rows_of(resp)) if resp["stmts"] else []
        else:
            out["kind"] = resp.get("kind")
            out["err"] = resp.get("err", "")
        return out

    def cmd(self, obj, timeout=60.0, **kw):
        return self.r.cmd(obj, timeout, **kw)

    def close(self):
        self.r.close()
        if self.dir:
            rm(self.dir)


class Lite:
    def __init__(self):
        self.c = sqlite3.connect(":memory:")

    def sql(self, s):
        try:
            cur = self.c.execute(s)
            rows = cur.fetchall()
            return dict(ok=True, rows=[tuple(r) for r in rows])
        except sqlite3.Error as e:
            return dict(ok=False, err=str(e))

    def close(self):
        self.c.close()


def ordered_equal(a, b, order):
    """Sequences equal on the ORDER BY key columns, and equal as multisets."""
    if ms(a) != ms(b):
        return False
    if any(i < 0 for i, _ in order):
        # ordered by a unique key that is not in the select list: the whole sequence is determined
        return [tuple(r) for r in a] == [tuple(r) for r in b]
    ka = [tuple(r[i] for i, _ in order) for r in a]
    kb = [tuple(r[i] for i, _ in order) for r in b]
    return ka == kb


def is_sorted(rows, order):
    """rows sorted by order [(idx, desc)], NULL smallest."""
    from functools import cmp_to_key
    from common import cell_key

    def cmp(x, y):
        for i, desc in order:
            if i < 0:
                continue
            a, b = cell_key(x[i]), cell_key(y[i])
            if a != b:
                c = -1 if a < b else 1
                return -c if desc else c
        return 0
    for i in range(len(rows) - 1):
        if cmp(rows[i], rows[i + 1]) > 0:
            return False
    return True


def is_conflict_text(err):
    """The two write-write conflict errors of the disk engine: the statement did nothing, retry."""
    err = err or ""
    return "replaced by a concurrent compaction" in err or "deleted by a concurrent statement" in err


def is_conflict(r):
    """A DELETE that lost the race against a background compaction reports this error (and has no
    effect); it is expected to succeed when retried."""
    return (not r.get("ok")) and is_conflict_text(r.get("err"))


def sql_retry(rl, sql, tries=4):
    r = rl.sql(sql)
    n = 0
    while is_conflict(r) and n < tries:
        n += 1
        r = rl.sql(sql)
    return r
