"""Shared infrastructure for the /verif checks: building the harness, talking to runner
processes, scratch directories, known findings, evidence files, verdicts."""
import fcntl
import hashlib
import json
import os
import random
import select
import shutil
import subprocess
import sys
import tempfile
import time

VERIF = os.path.dirname(os.path.dirname(os.path.abspath(__file__)))
HARNESS = os.path.join(VERIF, "harness")
# a sanitizer overlay (py/sanitize.py) points the same checks at an instrumented build
RLV = os.environ.get("VERIF_RLV_BIN") or os.path.join(HARNESS, "target", "release", "rlv")
OVERLAY = os.environ.get("VERIF_OVERLAY", "")
SCRATCH_ROOT = "/dev/shm" if os.path.isdir("/dev/shm") else tempfile.gettempdir()
NCPU = os.cpu_count() or 4


class Inconclusive(Exception):
    pass


def log(*a):
    print(*a, file=sys.stderr, flush=True)


def build_harness():
    """cargo build --release of the harness against /repo's current working tree (serialised)."""
    os.makedirs(os.path.join(HARNESS, "target"), exist_ok=True)
    lock = open(os.path.join(HARNESS, "target", ".verif-build.lock"), "w")
    fcntl.flock(lock, fcntl.LOCK_EX)
    try:
        env = dict(os.environ)
        env["CARGO_NET_OFFLINE"] = "true"
        # the harness pins the repo's lock file; refresh it if the repo's changed
        src = "/repo/Cargo.lock"
        t0 = time.time()
        p = subprocess.run(
            ["cargo", "build", "--release", "--offline"],
            cwd=HARNESS, env=env, stdout=subprocess.PIPE, stderr=subprocess.STDOUT, text=True)
        if p.returncode != 0:
            log(p.stdout[-4000:])
            raise Inconclusive("harness build failed (the tree does not compile with feature verif)")
        return time.time() - t0
    finally:
        fcntl.flock(lock, fcntl.LOCK_UN)
        lock.close()


class RunnerDied(Exception):
    def __init__(self, rc, stderr_tail=""):
        super().__init__(f"runner died rc={rc}")
        self.rc = rc
        self.stderr_tail = stderr_tail


class RunnerTimeout(Exception):
    pass


class RunnerCpuExhausted(RunnerTimeout):
    """The command did not return although the runner process itself consumed `cpu` seconds of CPU
    time on it (a load-independent bound, unlike the wall-clock watchdog)."""

    def __init__(self, cpu):
        super().__init__(f"no answer after {cpu:.0f} s of CPU time")
        self.cpu = cpu


def proc_cpu_seconds(pid):
    """user+system CPU time of a process (all threads) from /proc, in seconds"""
    try:
        f = open(f"/proc/{pid}/stat").read()
        rest = f[f.rindex(")") + 2:].split()
        return (int(rest[11]) + int(rest[12])) / os.sysconf("SC_CLK_TCK")
    except Exception:
        return None


def die_with_parent():
    """Linux: SIGKILL this process when its parent dies (a killed check must not leave pool
    workers or runners behind)."""
    try:
        import ctypes
        import signal
        ctypes.CDLL("libc.so.6", use_errno=True).prctl(1, signal.SIGKILL)   # PR_SET_PDEATHSIG
    except Exception:
        pass


class Runner:
    """One `rlv sql` process. Disposable."""

    def __init__(self, mt=0, env=None, binary=None, args=None):
        cmd = [binary or RLV] + (args if args is not None else ["sql"])
        if mt and args is None:
            cmd += ["--mt", str(mt)]
        e = dict(os.environ)
        if env:
            e.update(env)
        self.p = subprocess.Popen(cmd, stdin=subprocess.PIPE, stdout=subprocess.PIPE,
                                  stderr=subprocess.PIPE, env=e, bufsize=0, preexec_fn=die_with_parent)
        self.buf = b""

    def cmd(self, obj, timeout=60.0, cpu_budget=None, wall_max=1800.0):
        """cpu_budget: when the wall-clock watchdog fires, keep waiting until the runner process has
        itself burnt `cpu_budget` CPU-seconds on this command (-> RunnerCpuExhausted, a verdict that
        does not depend on machine load) or `wall_max` seconds passed (-> RunnerTimeout)."""
        cpu0 = proc_cpu_seconds(self.p.pid) if cpu_budget else None
        try:
            self.p.stdin.write((json.dumps(obj) + "\n").encode())
            self.p.stdin.flush()
        except (BrokenPipeError, OSError):
            raise RunnerDied(self.p.poll(), self._stderr())
        t_start = time.time()
        deadline = t_start + timeout
        while b"\n" not in self.buf:
            left = deadline - time.time()
            if left <= 0:
                if cpu_budget and cpu0 is not None and time.time() - t_start < wall_max:
                    used = proc_cpu_seconds(self.p.pid)
                    if used is not None and used - cpu0 >= cpu_budget:
                        self.kill()
                        raise RunnerCpuExhausted(used - cpu0)
                    if used is not None:
                        deadline = time.time() + 5.0
                        continue
                self.kill()
                raise RunnerTimeout()
            r, _, _ = select.select([self.p.stdout], [], [], min(left, 1.0))
            if r:
                chunk = os.read(self.p.stdout.fileno(), 1 << 16)
                if not chunk:
                    rc = self.p.wait()
                    raise RunnerDied(rc, self._stderr())
                self.buf += chunk
        line, self.buf = self.buf.split(b"\n", 1)
        return json.loads(line)

    def _stderr(self):
        try:
            os.set_blocking(self.p.stderr.fileno(), False)
            data = self.p.stderr.read() or b""
            return data[-2000:].decode(errors="replace")
        except Exception:
            return ""

    def sql(self, sql, db="main", timeout=60.0):
        return self.cmd({"op": "sql", "sql": sql, "db": db}, timeout)

    def kill(self):
        try:
            self.p.kill()
            self.p.wait(timeout=5)
        except Exception:
            pass

    def close(self):
        try:
            self.p.stdin.write(b'{"op":"quit"}\n')
            self.p.stdin.flush()
            self.p.wait(timeout=5)
        except Exception:
            self.kill()
        for f in (self.p.stdin, self.p.stdout, self.p.stderr):
            try:
                f.close()
            except Exception:
                pass


_scratch_n = 0


def scratch_dir(tag="s"):
    global _scratch_n
    _scratch_n += 1
    d = os.path.join(SCRATCH_ROOT, f"rlv-{os.getpid()}-{tag}-{_scratch_n}")
    shutil.rmtree(d, ignore_errors=True)
    os.makedirs(d)
    return d


def rm(d):
    shutil.rmtree(d, ignore_errors=True)


def panic_site(rec):
    """'file:line|task=..|message' -> 'file:<message class>' (no line numbers: they shift with every
    edit of the file; ids and numbers are stripped from the message)."""
    import re
    parts = str(rec).split("|")
    loc = parts[0].replace("/repo/", "")
    loc = re.sub(r"/root/\.cargo/registry/src/[^/]+/", "~cargo/", loc)
    f = re.sub(r":\d+(:\d+)?$", "", loc)
    msg = parts[-1] if len(parts) > 1 else ""
    msg = re.split(r"[\n]", msg)[0]
    msg = re.sub(r"\$?\d+(\.\d+)?(\(\d+\))?", "", msg)
    msg = re.sub(r"\"[^\"]*\"?", "", msg.replace("`", ""))   # drop quoted payloads (values, plans)
    slug = re.sub(r"[^a-z]+", "-", msg.lower()).strip("-")[:56].strip("-")
    return f"{f}:{slug}" if slug else f


def rows_of(resp, stmt=-1):
    """All rows (lists of typed cells) of statement `stmt` of a successful sql response."""
    out = []
    for ch in resp["stmts"][stmt]:
        out.extend(ch["rows"])
    return out


def types_of(resp, stmt=-1):
    ts = [tuple(ch["types"]) for ch in resp["stmts"][stmt]]
    return ts


def cell_key(c):
    """Total order key over typed cells of possibly different python types."""
    if c is None:
        return (0, 0)
    if isinstance(c, bool):
        return (1, int(c))
    if isinstance(c, (int, float)):
        return (2, c)
    if isinstance(c, str) and len(c) > 2 and c[1] == ":":
        # typed cells that are not plain strings: order numerically where the type is numeric
        if c[0] == "d":
            from decimal import Decimal
            try:
                return (2, Decimal(c[2:]))
            except Exception:
                pass
        if c[0] == "f":
            try:
                f = float(c[2:])
                return (2, f) if f == f else (2.5, 0)
            except Exception:
                pass
    return (3, str(c))


def row_key(r):
    return tuple(cell_key(c) for c in r)


def multiset(rows):
    return sorted((tuple(r) for r in rows), key=row_key)


def h(obj):
    return hashlib.sha1(json.dumps(obj, sort_keys=True, default=str).encode()).hexdigest()[:16]


# ----------------------------------------------------------------------------------------------
# verdicts, known findings, evidence


class Violation:
    def __init__(self, signature, what, witness):
        self.signature = signature      # discriminating key, matched against known findings
        self.what = what                # one line, human readable
        self.witness = witness          # json-able replay


def load_known():
    p = os.path.join(VERIF, "known_findings.json")
    if not os.path.exists(p):
        return {"open": [], "fixed": []}
    return json.load(open(p))


def attribute_rules(core, prop, prefix):
    """Signature of an optimizer disagreement from the rules whose single denial restores agreement (`core`; each of them is
    therefore *necessary* for this witness: with it denied and all others enabled the answers agree). When one of the necessary
    rules is a rewrite with an open finding of its own (a rule that is unsound by itself, `<prefix><rule>`), the witness is an
    instance of that finding whatever other rules had to prepare the match; otherwise the signature names the whole set."""
    known = {k["signature"][len(prefix):] for k in load_known().get("open", []) if k["property"] == prop and k["signature"].startswith(prefix)}
    for c in sorted(core):
        if c in known:
            return prefix + c
    return None


class Report:
    def __init__(self, prop, tier, seed, level):
        self.prop = prop
        self.tier = tier
        self.seed = seed
        self.level = level
        self.t0 = time.time()
        self.violations = []
        self.inconclusive = {}
        self.coverage = {}
        self.assumptions = []
        self.distinct = set()
        self.evaluations = 0
        self.samples = []
        self.rule = ""
        self.floors = []   # (name, observed, minimum)

    def add_violation(self, v):
        self.violations.append(v)

    def inc(self, why, n=1):
        self.inconclusive[why] = self.inconclusive.get(why, 0) + n

    def sample(self, s, limit=5):
        if len(self.samples) < limit:
            self.samples.append(s)

    def floor(self, name, observed, minimum):
        self.floors.append((name, observed, minimum))

    def finish(self):
        known = load_known()
        open_by_sig = {}
        for k in known.get("open", []):
            if k["property"] == self.prop:
                open_by_sig[k["signature"]] = k
        new, seen_known = [], {}
        for v in self.violations:
            if v.signature in open_by_sig:
                seen_known.setdefault(v.signature, []).append(v)
            else:
                new.append(v)
        replay_dir = os.path.join(VERIF, "replays", self.prop) if not OVERLAY else os.path.join(SCRATCH_ROOT, f"rlv-overlay-replays-{self.prop}")
        os.makedirs(replay_dir, exist_ok=True)
        lines = []
        for sig, vs in sorted(seen_known.items()):
            lines.append(f"KNOWN-FINDING: property={self.prop} {sig}: {open_by_sig[sig]['description']} "
                         f"({len(vs)} occurrence(s) this run; e.g. {vs[0].what})")
        reported = set()
        for v in new:
            if v.signature in reported:
                continue
            reported.add(v.signature)
            path = os.path.join(replay_dir, f"{h([v.signature, v.witness])}.json")
            json.dump({"property": self.prop, "signature": v.signature, "what": v.what,
                       "witness": v.witness, "seed": self.seed, "tier": self.tier},
                      open(path, "w"), indent=1, default=str)
            lines.append(f"VIOLATION property={self.prop} replay={path}")
            log(f"  violation [{v.signature}] {v.what}")
        floor_missed = [(n, o, m) for (n, o, m) in self.floors if o < m]
        cov = dict(self.coverage)
        cov.update({
            "evaluations": int(self.evaluations),
            "distinct_nontrivial": len(self.distinct) if not isinstance(self.distinct, int) else self.distinct,
            "rule": self.rule,
            "samples": self.samples if self.samples else ["<none>"],
            "inconclusive": self.inconclusive,
            "known_findings_seen": {s: len(v) for s, v in seen_known.items()},
            "new_violation_signatures": sorted(reported),
            "floors": [{"monitor": n, "observed": o, "minimum": m} for (n, o, m) in self.floors],
        })
        ev = {
            "property_id": self.prop, "tier": self.tier, "seed": int(self.seed), "level": self.level,
            "coverage": cov, "assumptions": self.assumptions,
            "wall_s": round(time.time() - self.t0, 2), "violations": len(new),
        }
        evdir = os.path.join(VERIF, "evidence") if not OVERLAY else os.path.join(VERIF, "evidence", ".overlay")
        os.makedirs(evdir, exist_ok=True)
        evname = f"{self.prop}.json" if not OVERLAY else f"{self.prop}-{OVERLAY}.json"
        json.dump(ev, open(os.path.join(evdir, evname), "w"), indent=1, default=str)
        for l in lines:
            print(l, flush=True)
        if new:
            print(f"{self.prop}: VIOLATED ({len(reported)} distinct signature(s)); "
                  f"{self.evaluations} evaluations", flush=True)
            return 1
        if floor_missed:
            for n, o, m in floor_missed:
                print(f"INCONCLUSIVE property={self.prop} monitor '{n}' observed {o} < floor {m}", flush=True)
            return 2
        print(f"{self.prop}: held on what was observed: {self.evaluations} evaluations, "
              f"{cov['distinct_nontrivial']} distinct non-trivial, inconclusive={self.inconclusive}, "
              f"known findings seen={len(seen_known)}", flush=True)
        return 0


def run_sentinels(rep, fn):
    """Re-run the stored witness of every open known finding of this property; whatever it shows
    goes through the normal classification (so a finding that still reproduces prints its
    KNOWN-FINDING line on every run, and one that stopped reproducing prints nothing)."""
    known = load_known()
    done = set()
    for k in known.get("open", []):
        if k["property"] != rep.prop or not k.get("sentinel_file"):
            continue
        path = os.path.join(VERIF, k["sentinel_file"])
        if path in done:
            continue
        done.add(path)
        try:
            w = json.load(open(path))
            w = w.get("witness", w)
            for sig, what in fn(w):
                rep.add_violation(Violation(sig, what, w))
        except Exception as e:   # a broken sentinel is inconclusive, never a violation
            rep.inc(f"sentinel {k['sentinel_file']}: {type(e).__name__}: {e}"[:80])
    run_regressions(rep, fn)


def sql_expect(w):
    """Generic regression witness {kind: "sql-expect", setup, sql, expect: rows | "error", engines, signature}:
    the statement must return exactly these rows (as a multiset of normalised cells) / must fail."""
    from sqlcase import RL, ms
    out = []
    for engine in w.get("engines", ["mem", "disk"]):
        rl = RL(engine)
        try:
            for st in w.get("setup", []):
                rl.sql(st)
            r = rl.sql(w["sql"], timeout=w.get("timeout", 60.0))
            if w["expect"] == "error":
                if r["ok"]:
                    out.append((w["signature"], f"[{engine}] {w['sql'][:200]}: expected an error, returned {r['rows'][:4]}"))
            elif not r["ok"]:
                out.append((w["signature"], f"[{engine}] {w['sql'][:200]}: expected {w['expect'][:4]}, failed: {r.get('kind')} {r.get('err', '')[:120]} {r.get('panics')}"))
            else:
                if w.get("ordered"):   # the sequence matters (ORDER BY witnesses)
                    want = [tuple(x) for x in w["expect"]]
                    if [tuple(x) for x in r["rows"]] != want:
                        out.append((w["signature"], f"[{engine}] {w['sql'][:200]}: expected the sequence {want[:6]}, returned {r['rows'][:6]}"))
                    continue
                want = ms([tuple(x) for x in w["expect"]])
                if ms(r["rows"]) != want:
                    out.append((w["signature"], f"[{engine}] {w['sql'][:200]}: expected {want[:4]}, returned {ms(r['rows'])[:4]}"))
        finally:
            rl.close()
    return out


def _regress_one(args):
    fn, path = args
    try:
        w = json.load(open(path))
        w = w.get("witness", w)
        if w.get("kind") == "sql-expect":
            return path, [(sig, what, w) for sig, what in sql_expect(w)], None
        return path, [(sig, what, w) for sig, what in fn(w)], None
    except Exception as e:
        return path, [], f"{type(e).__name__}: {e}"


def run_regressions(rep, fn):
    """Regression corpus: concrete witnesses of defects that were repaired (findings/regress/<prop>-*.json,
    committed; never written at run time). They are re-run on every invocation and whatever they show
    goes through the normal classification - nothing is suppressed, so a repaired defect that comes
    back is a VIOLATION again even when the random workload does not happen to rebuild the case."""
    import glob
    paths = sorted(glob.glob(os.path.join(VERIF, "findings", "regress", f"{rep.prop}-*.json")))
    if not paths:
        return
    fired = 0
    for path, vs, err in parallel_map(_regress_one, [(fn, p) for p in paths]):
        if err:
            rep.inc(f"regression witness {os.path.basename(path)}: {err}"[:90])
        for sig, what, w in vs:
            fired += 1
            rep.add_violation(Violation(sig, "[regression witness " + os.path.basename(path) + "] " + what, w))
    rep.coverage["regression_witnesses_rerun"] = len(paths)
    rep.coverage["regression_witnesses_fired"] = fired


def parallel_map(fn, items, workers=None):
    """Run fn over items in a process pool, yielding results as they complete (unordered)."""
    import concurrent.futures as cf
    workers = workers or NCPU
    with cf.ProcessPoolExecutor(max_workers=workers, initializer=die_with_parent) as ex:
        futs = [ex.submit(fn, it) for it in items]
        for f in cf.as_completed(futs):
            yield f.result()
