"""C02 - query answers follow standard SQL semantics on the core relational subset.

Differential runtime monitoring against an independent implementation: every generated query
(selection, projection, inner/left/right/full joins, IN/EXISTS subqueries, GROUP BY with
COUNT/SUM/MIN/MAX/COUNT DISTINCT, DISTINCT, ORDER BY, LIMIT/OFFSET under a total order) over
INT/BIGINT/BOOLEAN/VARCHAR tables with small domains, NULLs and duplicates runs on risinglight
(memory engine and a disk layout, optimizer on) and on SQLite (python sqlite3) with the same
schema and data; rows must agree as multisets (key sequence under ORDER BY). A disagreement is
classified by re-running risinglight with the optimizer off (then it is the optimizer's, and the
rules are bisected) - otherwise it is the executor's / binder's."""
import random
import re

from common import Report, Violation, parallel_map, h, run_sentinels, attribute_rules
from gen import gen_schema, setup_statements, QueryGen
from sqlcase import RL, Lite, DISK_LAYOUTS, ms, ordered_equal

TYPES = ("INT", "BIGINT", "BOOLEAN", "VARCHAR")
# constructs on which both dialects define the same answer
FEATURES = dict(full_join=True, not_in_sub=False, like=False, bool_col_cond=False, offset_no_limit=False, case_no_else=True,
                corr_in_sub=False, null_lit=True, cross=True, derived_limit=True, cast=True, concat=True, scalar_sub=True,
                mixed_int=True, group_expr=False)


def compare(a, b, order):
    return ordered_equal(a, b, order) if order else ms(a) == ms(b)


_ON = re.compile(r" ON (.*?)(?= (?:JOIN|LEFT JOIN|RIGHT JOIN|FULL JOIN|CROSS JOIN|WHERE|GROUP BY|ORDER BY|HAVING|LIMIT)\b|$)")


def _groups(text):
    """all balanced parenthesised groups of text (innermost included)"""
    out, stack = [], []
    for i, ch in enumerate(text):
        if ch == "(":
            stack.append(i)
        elif ch == ")" and stack:
            out.append(text[stack.pop():i + 1])
    return out


def sqlite_reference_unreliable(sql):
    """SQLite 3.40.1 (the reference in this sandbox) returns no rows for
    `a JOIN b ON <... constant-false term ...> RIGHT|FULL JOIN c ON ...` (checked by hand: with a
    non-constant false condition it returns c's rows NULL-padded, as the standard and risinglight
    do). Queries with a RIGHT/FULL JOIN and a join condition that contains a predicate without any
    column reference are not judged."""
    if "RIGHT JOIN" not in sql and "FULL JOIN" not in sql:
        return False
    col = re.compile(r"\b[a-z]\w*\.[a-z]\w*")
    pred = re.compile(r"[=<>]| IS | IN | BETWEEN | LIKE ")
    for m in _ON.finditer(sql):
        on = m.group(1)
        if not col.search(on):
            return True
        for g in _groups(on):
            if not col.search(g) and pred.search(g) and "SELECT" not in g:
                return True
    return False


def run_case(args):
    seed, idx, nq = args
    rng = random.Random(f"c02-{seed}-{idx}")
    tables = gen_schema(rng, types=TYPES, pk_types=("INT",), max_cols=4, pk_p=0.4)
    stmts = setup_statements(rng, tables, max_rows=rng.choice([5, 12, 25]), max_stmts=4, null_p=rng.choice([0.1, 0.3]))
    engine = "disk" if rng.random() < 0.3 else "mem"
    res = dict(violations=[], evals=0, compared=0, rl_rejected=0, rl_failed=0, ref_err=0, distinct=[], tags={}, inconclusive=None, sample=None)
    rl = RL(engine, DISK_LAYOUTS[0])
    lt = Lite()
    try:
        for s in stmts:
            a, b = rl.sql(s), lt.sql(s)
            if not a["ok"] or not b["ok"]:
                res["inconclusive"] = "setup failed: " + (a.get("err") or b.get("err") or "")[:50]
                return res
        g = QueryGen(rng, tables, FEATURES)
        for _ in range(nq):
            q = g.query()
            if sqlite_reference_unreliable(q.sql):
                res["ref_err"] += 1
                continue
            ref = lt.sql(q.sql)
            if not ref["ok"]:
                res["ref_err"] += 1     # generator produced something SQLite rejects: not judged
                continue
            a = rl.sql(q.sql)
            res["evals"] += 1
            if a.get("dead"):
                res["inconclusive"] = "runner died"
                res["died_on"] = dict(sql=q.sql, setup=stmts, engine=engine, err=a.get("err", "")[-400:])
                break
            if not a["ok"]:
                if a.get("kind") in ("bind", "parse") or (a.get("kind") == "panic" and "binder" in str(a.get("panics"))):
                    res["rl_rejected"] += 1
                else:
                    res["rl_failed"] += 1   # an error is not a wrong answer (C15/C17 judge failures)
                continue
            res["compared"] += 1
            for t in q.tags:
                res["tags"][t] = res["tags"].get(t, 0) + 1
            if compare(a["rows"], ref["rows"], q.order):
                if ref["rows"]:
                    res["distinct"].append(h(q.sql))
                continue
            # classify
            rl.sql("PRAGMA disable_optimizer")
            un = rl.sql(q.sql)
            rl.sql("PRAGMA enable_optimizer")
            # which single rules, when denied, make the optimized answer agree with the reference? (also
            # when the unoptimized plan cannot run at all, e.g. with subqueries)
            culprits = []
            for name in sorted((a.get("raw", {}).get("rules") or {})):
                rl.cmd({"op": "deny_rules", "rules": [name]})
                x = rl.sql(q.sql)
                if x["ok"] and compare(x["rows"], ref["rows"], q.order):
                    culprits.append(name)
            rl.cmd({"op": "deny_rules", "rules": []})
            unopt_agrees = un["ok"] and compare(un["rows"], ref["rows"], q.order)
            if unopt_agrees or (culprits and not un["ok"]):
                # commutativity / associativity rules only expose the match of the real culprit
                core = [c for c in culprits if not c.endswith(("-comm", "-assoc"))] or culprits
                sig = attribute_rules(core, "C02", "optimizer:") or ("optimizer:" + ("+".join(core[:3]) if core else "unattributed"))
            else:
                feats = sorted(t for t in q.tags if t.startswith(("join:", "agg:", "sub:")) or t in ("distinct", "having", "case", "div", "between", "in_list", "concat", "cast", "limit", "offset", "derived_limit", "cte"))
                sig = "semantics:" + ",".join(feats[:6])
            got, want = ms(a["rows"]), ms(ref["rows"])
            res["violations"].append(dict(signature=sig, sql=q.sql, setup=stmts, engine=engine, order=q.order,
                                          what=f"{q.sql[:260]}: risinglight {len(got)} rows, SQLite {len(want)}; only in risinglight {[x for x in got if x not in want][:3]} only in SQLite {[x for x in want if x not in got][:3]}"))
        res["sample"] = q.sql[:200]
    except Exception as e:
        res["inconclusive"] = f"harness: {type(e).__name__}: {e}"
    finally:
        rl.close()
        lt.close()
    return res


def sentinel(w):
    rl = RL(w.get("engine", "mem"), DISK_LAYOUTS[0])
    lt = Lite()
    try:
        for s in w["setup"]:
            rl.sql(s)
            lt.sql(s)
        a, ref = rl.sql(w["sql"]), lt.sql(w["sql"])
        order = [tuple(x) for x in (w.get("order") or [])]
        if a["ok"] and ref["ok"] and not compare(a["rows"], ref["rows"], order):
            return [(w["signature"], f"{w['sql'][:200]}: risinglight {ms(a['rows'])[:4]} SQLite {ms(ref['rows'])[:4]}")]
        return []
    finally:
        rl.close()
        lt.close()


def run(tier, seed):
    rep = Report("C02", tier, seed, "exploration")
    n, nq = (500, 20) if tier == "quick" else (8000, 25)
    rep.rule = ("1-3 tables of INT/BIGINT/BOOLEAN/VARCHAR columns, 0-25 rows over small domains with NULLs and duplicates, several "
                "INSERTs; generated queries from the common dialect subset, optimizer on, memory engine or a disk layout; "
                "reference = SQLite 3.40 on the same data; distinct non-trivial = distinct queries with a non-empty agreeing result")
    tot = dict(compared=0, rl_rejected=0, rl_failed=0, ref_err=0)
    tags = {}
    for res in parallel_map(run_case, [(seed, i, nq) for i in range(n)]):
        rep.evaluations += res["evals"]
        for k in tot:
            tot[k] += res[k]
        rep.distinct.update(res["distinct"])
        for k, v in res["tags"].items():
            tags[k] = tags.get(k, 0) + v
        if res["inconclusive"]:
            rep.inc(res["inconclusive"][:50])
            if res.get("died_on"):
                rep.coverage.setdefault("runner_deaths", []).append(res["died_on"])
        if res["sample"]:
            rep.sample(res["sample"], limit=4)
        for v in res["violations"]:
            rep.add_violation(Violation(v["signature"], v["what"], dict(sql=v["sql"], setup=v["setup"], engine=v["engine"], order=v["order"], signature=v["signature"])))
    run_sentinels(rep, sentinel)
    rep.coverage.update(queries_compared=tot["compared"], rejected_by_risinglight_binder=tot["rl_rejected"],
                        failed_in_risinglight=tot["rl_failed"], rejected_by_sqlite=tot["ref_err"], features_compared=tags)
    rep.floor("queries compared with SQLite", tot["compared"], n * nq // 2)
    rep.assumptions = ["only constructs on which SQLite and the SQL standard agree: integer / and % truncate, x/0 is NULL, NULLs sort first, "
                       "no LIKE, no AVG, no string/number comparisons, LIMIT only under a total order, small values (no overflow)",
                       "a statement risinglight rejects or fails is not a wrong answer (C17 / C15 judge those)"]
    return rep.finish()


def replay(path):
    import json
    w = json.load(open(path))["witness"]
    out = sentinel(w)
    for s in out:
        print("VIOLATION-REPRO", s)
    return 1 if out else 0
