"""C20 - CSV export followed by import reproduces the table.

For random column type lists and contents (NULLs, strings with delimiter / quote / newline,
extreme numbers, dates) and CSV options, COPY t TO f; COPY u FROM f (same options, same column
types) must make `SELECT * FROM u` equal `SELECT * FROM t` as multisets of typed cells. Also
COPY (SELECT ...) TO."""
import os
import random

from common import Report, Violation, parallel_map, h, run_sentinels, scratch_dir, rm, panic_site
from sqlcase import RL, ms

TYPES = ["INT", "BIGINT", "SMALLINT", "BOOLEAN", "VARCHAR", "DOUBLE", "DECIMAL(12,3)", "DATE", "TIMESTAMP",
         "TIMESTAMPTZ", "INTERVAL", "BLOB"]
STRS = ["a", "ab c", "x,y", "semi;colon", "pipe|d", "tab\there", 'dq"uote', "sq'uote", "line\nbreak", "cr\rhere",
        " lead", "trail ", "NULL", "null", "\\N", "é✓", "0", "true", "a" * 200,
        # characters that mean something to CSV dialects other than the one written: comment, escape, BOM, type sniffing
        "#", "#hash first", "x#y", "\\", "back\\slash", "a\\,b", "\ufeffbom", "=1+1", "-", "--", "1e5", "0x10", "\t", "~", "@"]


def lit(rng, typ):
    if typ in ("INT",):
        return str(rng.choice([0, 1, -1, 2147483647, -2147483648, 42]))
    if typ == "BIGINT":
        return str(rng.choice([0, 1, -1, 9223372036854775807, -9223372036854775807, 1 << 40]))
    if typ == "SMALLINT":
        return str(rng.choice([0, 1, -1, 32767, -32768]))
    if typ == "BOOLEAN":
        return rng.choice(["true", "false"])
    if typ == "VARCHAR":
        return "'" + rng.choice(STRS).replace("'", "''") + "'"
    if typ == "DOUBLE":
        return rng.choice(["0.0", "1.5", "-2.25", "123456789012345.5", "0.000001", "123456789.125", "0.1"])
    if typ.startswith("DECIMAL"):
        return rng.choice(["0", "1.5", "-2.25", "123456789.125", "0.001", "10"])
    if typ == "DATE":
        return "DATE '" + rng.choice(["2000-01-01", "1999-12-31", "2024-02-29", "1970-01-01", "0001-01-01", "9999-12-31"]) + "'"
    if typ == "TIMESTAMP":
        return "'" + rng.choice(["2020-01-01 10:00:00", "1999-12-31 23:59:59", "1970-01-01 00:00:00", "2024-02-29 12:34:56"]) + "'"
    if typ == "TIMESTAMPTZ":
        return "'" + rng.choice(["2020-01-01 10:00:00 +08:00", "1999-12-31 23:59:59 +00:00", "1970-01-01 00:00:00 -05:00"]) + "'"
    if typ == "INTERVAL":
        return rng.choice(["INTERVAL '1' DAY", "INTERVAL '2' YEAR", "INTERVAL '3' MONTH", "'5 seconds'", "'7 hours'",
                           "'1 day 2 hours'", "'90 minutes'", "'-1 day'", "'2 years 3 days'"])
    if typ == "BLOB":
        return "'" + rng.choice(["\\x01ff", "ab", "\\x00", "\\xaa\\xff"]) + "'"
    raise ValueError(typ)


def run_case(args):
    seed, idx, opts = args
    rng = random.Random(f"c20-{seed}-{idx}")
    types = opts.get("types") or [rng.choice(TYPES) for _ in range(rng.randint(1, 5))]
    empty_strings = opts.get("empty_strings", False)
    header = opts.get("header", False)
    delim = opts.get("delimiter") or rng.choice([",", "|", ";", "\t"])
    quote = opts.get("quote") or rng.choice(['"', '"', "'"])
    fixed = opts.get("fixed")
    if fixed:
        types, header, delim, quote = fixed["types"], fixed["header"], fixed["delim"], fixed["quote"]
    res = dict(seed=seed, idx=idx, violations=[], types=types, rows=0, inconclusive=None, feats=set())
    d = scratch_dir("csv")
    engine = fixed["engine"] if fixed else ("mem" if rng.random() < 0.7 else "disk")
    rl = RL(engine)
    try:
        cols = ", ".join(f"c{i} {t}" for i, t in enumerate(types))
        for name in ("t", "u"):
            r = rl.sql(f"create table {name}({cols})")
            if not r["ok"]:
                res["inconclusive"] = "create rejected: " + r.get("err", "")[:60]
                return res
        n = rng.choice([0, 1, 3, 10, 40])
        rows = []
        for _ in range(n):
            row = []
            for t in types:
                if rng.random() < 0.2:
                    row.append("NULL")
                    res["feats"].add("null")
                elif t == "VARCHAR" and empty_strings and rng.random() < 0.3:
                    row.append("''")
                    res["feats"].add("empty-string")
                else:
                    row.append(lit(rng, t))
            rows.append("(" + ", ".join(row) + ")")
        insert_sql = f"insert into t values {', '.join(rows)}" if rows else None
        if fixed:
            insert_sql, n = fixed["insert"], fixed["nrows"]
        if insert_sql:
            r = rl.sql(insert_sql)
            if not r["ok"]:
                res["inconclusive"] = "insert rejected: " + r.get("err", "")[:80]
                return res
        res["rows"] = n
        src = rl.sql("select * from t")
        if not src["ok"]:
            res["inconclusive"] = "select failed"
            return res
        o = []
        if delim != ",":
            o.append("DELIMITER '" + delim + "'")
        if quote != '"':
            o.append("QUOTE ''''")
        if header:
            o.append("HEADER true")
        optsql = f" ({', '.join(['FORMAT CSV'] + o)})" if (o or rng.random() < 0.3) else ""
        f = os.path.join(d, "x.csv")
        use_query = rng.random() < 0.25
        if fixed:
            optsql, use_query = fixed["optsql"], fixed["use_query"]
        res["case"] = dict(types=types, header=header, delim=delim, quote=quote, engine=engine, insert=insert_sql, nrows=n,
                           optsql=optsql, use_query=use_query)
        srcsql = "(select * from t)" if use_query else "t"
        if use_query:
            res["feats"].add("copy-query")
        if not fixed and rng.random() < 0.3 and n > 0:
            # the target path already holds a longer export (same options): the new export must
            # replace it, not overwrite its beginning
            res["feats"].add("re-export-over-longer-file")
            rl.sql(f"create table s({cols})")
            rl.sql("insert into s select * from t")
            rl.sql("insert into s select * from t")
            rl.sql(f"copy s to '{f}'{optsql}")
        q1 = f"copy {srcsql} to '{f}'{optsql}"
        r = rl.sql(q1)
        tag = f"types={types} delim={delim!r} quote={quote!r} header={header}"
        if not r["ok"]:
            res["violations"].append(dict(signature=f"export-fails:{err_type(r, types)}", what=f"{q1}: {r.get('err', '')[:120]} {r.get('panics')} [{tag}]"))
            return res
        q2 = f"copy u from '{f}'{optsql}"
        r = rl.sql(q2)
        if not r["ok"]:
            res["violations"].append(dict(signature=f"import-fails:{err_type(r, types)}", what=f"{q2}: {r.get('err', '')[:160]} {r.get('panics')} [{tag}]"))
            return res
        dst = rl.sql("select * from u")
        if not dst["ok"]:
            res["violations"].append(dict(signature="select-after-import-fails", what=f"{dst.get('err')} [{tag}]"))
            return res
        if ms(dst["rows"]) != ms(src["rows"]):
            a, b = ms(src["rows"]), ms(dst["rows"])
            # which column types differ
            bad = set()
            if len(a) == len(b):
                for x, y in zip(a, b):
                    for i, (p, q) in enumerate(zip(x, y)):
                        if p != q:
                            bad.add(types[i] + (":empty-string" if p == "" else ""))
            sig = "rows-differ:" + (",".join(sorted(bad)) if bad else f"count:{'header' if header else 'other'}")
            # exactly one cell differs and it differs by a leading U+FEFF: the CSV reader took it for a byte-order mark
            strip = lambda rows: ms([tuple(c[1:] if isinstance(c, str) and c.startswith("\ufeff") else c for c in r) for r in rows])
            if len(a) == len(b) and strip(a) == strip(b) and sum(1 for r in a for c in r if isinstance(c, str) and c.startswith("\ufeff")) - sum(1 for r in b for c in r if isinstance(c, str) and c.startswith("\ufeff")) == 1:
                sig = "rows-differ:leading-U+FEFF-of-the-file-read-as-byte-order-mark"
            res["violations"].append(dict(signature=sig, what=f"exported {len(a)} rows, imported {len(b)}; first diff {[(x, y) for x, y in zip(a, b) if x != y][:2]} [{tag}]"))
    except Exception as e:
        res["inconclusive"] = f"harness: {type(e).__name__}: {e}"
    finally:
        rl.close()
        rm(d)
    res["feats"] = sorted(res["feats"])
    return res


def err_type(r, types):
    """Signature component for an import/export failure: the panic site or a coarse error class."""
    if r.get("panics"):
        return panic_site(r["panics"][0])
    import re
    return re.sub(r"[0-9]+", "N", r.get("err", ""))[:40]


def sentinel(w):
    res = run_case((0, 0, {"fixed": w["case"]}))
    return [(v["signature"], v["what"]) for v in res["violations"]]


def run(tier, seed):
    rep = Report("C20", tier, seed, "exploration")
    n = 1600 if tier == "quick" else 20000
    rep.rule = ("random column type lists (12 types), 0-40 rows with NULLs and strings containing delimiter/quote/newline/blank "
                "characters, delimiter in {, | ; tab}, quote in {\" '}, COPY table or COPY (query); distinct non-trivial = distinct "
                "(types, options) with at least one row exported")
    by_type = {}
    for res in parallel_map(run_case, [(seed, i, {}) for i in range(n)]):
        rep.evaluations += 1
        if res["inconclusive"]:
            rep.inc(res["inconclusive"][:50])
            continue
        if res["rows"]:
            rep.distinct.add(h([res["types"], res["idx"] % 7]))
            for t in res["types"]:
                by_type[t] = by_type.get(t, 0) + 1
        rep.sample(dict(types=res["types"], rows=res["rows"], features=res["feats"]), limit=4)
        for v in res["violations"]:
            rep.add_violation(Violation(v["signature"], v["what"], dict(case=res.get("case"))))
    run_sentinels(rep, sentinel)
    rep.coverage.update(tables_per_column_type=by_type)
    rep.floor("round trips with rows", len(rep.distinct), n // 4)
    rep.assumptions = ["empty strings and HEADER are exercised only through the sentinels of their known findings"]
    return rep.finish()


def replay(path):
    import json
    w = json.load(open(path))["witness"]
    out = sentinel(w)
    for s in out:
        print("VIOLATION-REPRO", s)
    return 1 if out else 0
