"""C10 - concurrent sessions behave like some serial order.

k sessions issue CREATE/DROP TABLE (colliding names), INSERT (unique ids), DELETE by id and
SELECT concurrently against one on-disk database: (a) on a current-thread runtime with a paused
clock and hook-point perturbation, (b) on a multi-thread runtime (2-16 workers, as the CLI and
the PostgreSQL-protocol server use). The history is recorded at the client boundary (invoke,
ok(result) | err); an offline checker searches (DFS with memoisation) for a total order of the
statements, consistent with each session's order, in which a small sequential model reproduces
every acknowledged result, every failure is explained (or is the documented transient conflict)
and the final catalog and contents; the same state must be there after shutdown + reopen. A
panicking or stuck session is a violation (stuck is decided on virtual time; a wall-clock
watchdog on the multi-thread legs is only inconclusive)."""
from sqlcase import is_conflict_text
import os
import random
import sys

from common import Report, Violation, parallel_map, h, run_sentinels, panic_site
from schedlib import run_scenario, stmt_rows, trace_spec, interleaving_signature
from sqlcase import ms

NAMES = ["ta", "tb"]


def gen_scenario(rng, seed, idx, mt):
    k = rng.choice([2, 2, 3, 4])
    uid = [0]
    setup = []
    pre = {}
    # compaction-heavy variant (current-thread leg): the table starts with several row-sets, the sessions
    # pause between statements so that they span compactor passes, the clock lets 3-4 passes run and one
    # directed gate holds the compactor (or a transaction) inside one of its windows
    heavy = (not mt) and rng.random() < 0.5
    if heavy or rng.random() < 0.6:
        setup.append("create table ta(uid int not null, k int)")
        pre["ta"] = {}
        for _ in range(rng.choice([2, 3]) if heavy else 1):
            part = [(uid[0] + i, rng.randint(0, 3)) for i in range(rng.choice([3, 7]) if heavy else rng.choice([0, 3, 7]))]
            uid[0] += len(part)
            if part:
                setup.append("insert into ta values " + ", ".join(f"({u}, {v})" for u, v in part))
            pre["ta"].update(dict(part))
    actors, specs = [], []
    for s in range(k):
        stmts, spec = [], []
        mine = []
        for _ in range(rng.randint(2, 6)):
            name = rng.choice(NAMES)
            x = rng.random()
            if heavy:
                # fewer DDL statements, more deletes on the pre-filled table: what compaction can undo
                name = "ta" if rng.random() < 0.8 else name
                x = rng.choice([0.1, 0.25, 0.4, 0.5, 0.62, 0.64, 0.66, 0.7, 0.72, 0.75, 0.78, 0.9])
            if x < 0.2:
                stmts.append(f"create table {name}(uid int not null, k int)")
                spec.append(("create", name, None))
            elif x < 0.3:
                stmts.append(f"drop table {name}")
                spec.append(("drop", name, None))
            elif x < 0.6:
                part = [(uid[0] + i, rng.randint(0, 3)) for i in range(rng.choice([1, 2, 5]))]
                uid[0] += len(part)
                mine.extend((name, u) for u, _ in part)
                stmts.append(f"insert into {name} values " + ", ".join(f"({u}, {v})" for u, v in part))
                spec.append(("insert", name, part))
            elif x < 0.68:
                # a predicate delete: overlaps with the deletes and inserts of the other sessions
                kv = rng.randint(0, 3)
                stmts.append(f"delete from {name} where k = {kv}")
                spec.append(("delete_k", name, kv))
            elif x < 0.8:
                pool = [u for n, u in mine if n == name] + ([u for u in pre.get(name, {}) if u % k == s])
                if not pool:
                    continue
                dels = rng.sample(pool, min(len(pool), rng.choice([1, 2])))
                stmts.append(f"delete from {name} where " + " or ".join(f"uid = {u}" for u in dels))
                spec.append(("delete", name, dels))
            else:
                stmts.append(f"select uid, k from {name}")
                spec.append(("select", name, None))
            if heavy and rng.random() < 0.35:
                stmts.append(f"<sleep {rng.choice([1, 500, 1000, 1001])}>")   # (no history entry)
        actors.append({"name": f"s{s}", "kind": "sql", "stmts": stmts, "stmt_timeout_ms": 900000})
        specs.append(spec)
    if not mt:
        actors.append({"name": "clk", "kind": "clock", "ticks": rng.choice([3, 4]) if heavy else rng.choice([1, 2]),
                       "tick_ms": 1001 if heavy else rng.choice([1001, 3])})
    sc = {"seed": seed * 100003 + idx, "block": 64, "rowset": rng.choice([200, 1000]), "crc": True, "mt": mt,
          "setup": setup, "actors": actors, "p_yield": rng.choice([0, 30, 70]), "max_yields": rng.choice([1, 4]),
          "p_sleep": rng.choice([0, 10]), "p_long_sleep": rng.choice([0, 10]), "p_sync_delay": rng.choice([0, 30]),
          "final": ["select * from pg_catalog.pg_tables"] + [f"select uid, k from {n}" for n in NAMES],
          "reopen": True, "final_ticks": 1 if mt else 2, "virtual_deadline_ms": 3_600_000}
    if (not mt) and (not heavy) and rng.random() < 0.35:
        # DDL/DML race variant: one session is held inside its commit (manifest record appended, epoch not yet
        # published; or just before the append; or before the commit starts) until another session has pinned a
        # snapshot / committed: a DROP TABLE or DELETE that pinned before an INSERT's publication does not see its row-set
        who = f"s{rng.randrange(k)}"
        sc["gates"] = [rng.choice([
            {"actor": who, "point": "commit.before_publish", "until": "pin"},
            {"actor": who, "point": "commit.before_publish", "until": "pin", "count": 2},
            {"actor": who, "point": "commit.before_append", "until": "pin"},
            {"actor": who, "point": "txn.before_commit", "until": "commit"},
            {"actor": who, "point": "txn.after_pin", "until": "commit"}])]
        sc["p_yield"], sc["p_sleep"], sc["p_long_sleep"] = 15, 0, 0
    if heavy:
        sc["gates"] = [rng.choice([
            {"actor": "bg", "point": "compactor.before_lock", "until": "commit"},
            {"actor": "bg", "point": "compactor.before_lock", "until": "commit"},
            {"actor": "bg", "point": "compactor.before_lock", "until": "commit", "count": 2},
            {"actor": "bg", "point": "compactor.after_read", "until": "pin"},
            {"actor": "bg", "point": "compactor.before_commit", "until": "pin"},
            {"actor": "s0", "point": "txn.before_commit", "until": "compactor.committed"},
            {"actor": "s1", "point": "txn.after_pin", "until": "compactor.committed"}])]
        sc["p_yield"], sc["p_sleep"], sc["p_long_sleep"] = 15, 0, 0
    return sc, pre, specs


def model_step(state, spec):
    """state: {name: frozenset((uid,k))}; returns (ok, result, new_state)"""
    kind, name, arg = spec
    if kind == "create":
        if name in state:
            return False, None, state
        ns = dict(state)
        ns[name] = frozenset()
        return True, None, ns
    if name not in state:
        return False, None, state
    if kind == "drop":
        ns = dict(state)
        del ns[name]
        return True, None, ns
    if kind == "insert":
        ns = dict(state)
        ns[name] = state[name] | frozenset(arg)
        return True, len(arg), ns
    if kind == "delete":
        gone = {r for r in state[name] if r[0] in arg}
        ns = dict(state)
        ns[name] = state[name] - gone
        return True, len(gone), ns
    if kind == "delete_k":
        gone = {r for r in state[name] if r[1] == arg}
        ns = dict(state)
        ns[name] = state[name] - gone
        return True, len(gone), ns
    if kind == "select":
        return True, sorted(state[name]), state
    raise ValueError(kind)


def explain(sessions, init, final, budget=300000, stale_delete_snapshot=False):
    """sessions: [[(spec, ok, result, transient)]]. Returns True / False / None (budget exhausted).

    With `stale_delete_snapshot` the search runs against a deliberately WEAKER model that is only
    used to name a known finding: an acknowledged predicate DELETE is split into a read step (the
    rows matching the predicate are captured from the state at that point of the order) and a
    later commit step (exactly the captured rows are removed and counted).  A history that only
    this model explains is the 'DELETE scans a snapshot older than its commit' anomaly."""
    sys.setrecursionlimit(10000)
    seen = set()
    nodes = [0]

    def key(state):
        return tuple(sorted((n, tuple(sorted(r))) for n, r in state.items()))

    def dfs(pos, snaps, state):
        nodes[0] += 1
        if nodes[0] > budget:
            raise TimeoutError()
        if all(p == len(s) for p, s in zip(pos, sessions)):
            return key(state) == key(final)
        k = (pos, snaps, key(state))
        if k in seen:
            return False
        seen.add(k)
        for i, s in enumerate(sessions):
            if pos[i] == len(s):
                continue
            spec, ok, result, transient = s[pos[i]]
            if stale_delete_snapshot and ok and spec[0] == "delete_k":
                _, name, kv = spec
                if snaps[i] is None:
                    if name in state:
                        cap = frozenset(r for r in state[name] if r[1] == kv)
                        nsn = snaps[:i] + (cap,) + snaps[i + 1:]
                        if dfs(pos, nsn, state):
                            return True
                    continue
                cap = snaps[i]
                if name in state and cap <= state[name] and (result is None or result == len(cap)):
                    ns = dict(state)
                    ns[name] = state[name] - cap
                    npos = pos[:i] + (pos[i] + 1,) + pos[i + 1:]
                    nsn = snaps[:i] + (None,) + snaps[i + 1:]
                    if dfs(npos, nsn, ns):
                        return True
                continue
            mok, mres, ns = model_step(state, spec)
            good = False
            if ok:
                if mok:
                    if spec[0] in ("insert", "delete", "delete_k"):
                        # (the PostgreSQL-protocol server acknowledges DML with "OK", without a count)
                        good = result is None or result == mres
                    elif spec[0] == "select":
                        good = result == mres
                    else:
                        good = True
            else:
                # a failed statement is a no-op; it must be explained by the model, or be transient
                if (not mok) or transient:
                    good = True
                    ns = state
            if good:
                npos = pos[:i] + (pos[i] + 1,) + pos[i + 1:]
                if dfs(npos, snaps, ns):
                    return True
        return False

    try:
        return dfs(tuple(0 for _ in sessions), tuple(None for _ in sessions), init)
    except TimeoutError:
        return None


def judge(sc, pre, specs, out):
    v = []
    info = dict(stmts=0, acked=0, failed=0, unexplained_errors=0, verdict=None, mt=sc.get("mt", 0))
    if out.get("error"):
        return [("database-open-failed", out["error"])], info
    for p in out.get("panics", []):
        v.append(("panic:" + panic_site(p), p[:200]))
    sessions = []
    for si, spec in enumerate(specs):
        res = out["actors"][si]
        if res.get("error"):
            v.append(("session-task-failed", res["error"]))
            return v, info
        hist = res.get("history", [])
        sess = []
        for i, hh in enumerate(hist):
            info["stmts"] += 1
            if hh.get("panic"):
                v.append(("session-panicked", f"{hh['sql'][:80]}"))
            if hh.get("stuck"):
                v.append(("session-stuck", f"{hh['sql'][:80]}: {hh.get('err')}"))
                continue
            sp = spec[i]
            if hh["ok"]:
                info["acked"] += 1
                rows = stmt_rows(hh)
                if sp[0] in ("insert", "delete", "delete_k"):
                    result = rows[0][0] if rows else None
                elif sp[0] == "select":
                    result = sorted(tuple(r) for r in rows)
                else:
                    result = None
                sess.append((sp, True, result, False))
            else:
                info["failed"] += 1
                transient = is_conflict_text(hh.get("err"))
                sess.append((sp, False, None, transient))
        sessions.append(sess)
    init = {n: frozenset(r.items()) for n, r in pre.items()}

    def read_final(hist):
        st = {}
        if not hist or not hist[0]["ok"]:
            return None
        names = sorted(x[3] for x in stmt_rows(hist[0]) if x[1] == "postgres")
        for hh in hist[1:]:
            n = hh["sql"].split()[-1]
            if n in names:
                if not hh["ok"]:
                    return None
                st[n] = frozenset(tuple(r) for r in stmt_rows(hh))
        if sorted(st) != names:
            return None
        return st
    final = read_final(out.get("final", []))
    if final is None:
        v.append(("final-state-unreadable", str([(x["sql"], x.get("err")) for x in out.get("final", []) if not x["ok"]])[:200]))
        return v, info
    verdict = explain(sessions, init, final)
    info["verdict"] = verdict
    if verdict is False:
        weak = explain(sessions, init, final, stale_delete_snapshot=True)
        sig = "no-serial-order" if weak is not True else "no-serial-order:stale-predicate-delete-snapshot"
        v.append((sig, "no order of the statements consistent with session order reproduces the acknowledged results and the final state: "
                  + str([[(s[0][0], s[0][1], "ok" if s[1] else "err", s[2] if s[0][0] != "select" else len(s[2] or [])) for s in sess] for sess in sessions])[:600]
                  + f" final={ {n: len(r) for n, r in final.items()} }"))
    if out.get("reopen") is not None:
        if not out["reopen"].get("ok"):
            v.append(("reopen-failed", str(out["reopen"])[:200]))
        else:
            after = read_final(out.get("final_after_reopen", []))
            if after != final:
                v.append(("state-after-reopen-differs", f"before {None if final is None else {n: len(r) for n, r in final.items()}} after {None if after is None else {n: len(r) for n, r in after.items()}}"))
    if out.get("deadlock"):
        v.append(("virtual-deadline", "a session never finished (virtual time)"))
    if not sc.get("mt"):
        tv, _ = trace_spec(out.get("setup_events", []) + out.get("events", []))
        v.extend(tv)
    info["sig"] = interleaving_signature(out.get("events", []))
    return v, info


def run_case(args):
    seed, idx, mt = args
    rng = random.Random(f"c10-{seed}-{idx}-{mt}")
    sc, pre, specs = gen_scenario(rng, seed, idx, mt)
    out, err = run_scenario(sc, timeout=120)
    if out is None:
        return dict(seed=seed, idx=idx, mt=mt, inconclusive=err, violations=[], info=None)
    try:
        v, info = judge(sc, pre, specs, out)
    except Exception as e:
        import traceback
        return dict(seed=seed, idx=idx, mt=mt, inconclusive=f"oracle error: {type(e).__name__}: {e} {traceback.format_exc()[-300:]}", violations=[], info=None)
    return dict(seed=seed, idx=idx, mt=mt, inconclusive=None, violations=v, info=info,
                sample=dict(mt=mt, sessions=[a["stmts"][:4] for a in sc["actors"] if a["kind"] == "sql"][:3]))


def free_port():
    import socket
    s = socket.socket()
    s.bind(("127.0.0.1", 0))
    port = s.getsockname()[1]
    s.close()
    return port


def run_pg_scenario(sc, specs, workers):
    """The same scenario through the real PostgreSQL-protocol server (`rlv serve` =
    risinglight::server::run_server on a multi-thread runtime): one TCP connection per session,
    simple-query protocol. -> (out, err) in the format of run_scenario."""
    import subprocess
    import threading
    import time
    from common import RLV, scratch_dir, rm, Runner, die_with_parent
    from pgclient import PgConn, PgClosed
    d = scratch_dir("pg")
    path = os.path.join(d, "db")
    srv = None
    lines = []
    try:
        for attempt in range(3):
            port = free_port()
            srv = subprocess.Popen([RLV, "serve", str(port), str(workers), "disk", path, str(sc["block"]), str(sc["rowset"])],
                                   stdout=subprocess.PIPE, stderr=subprocess.DEVNULL, text=True, preexec_fn=die_with_parent)
            first = srv.stdout.readline()
            if first.startswith("LISTENING"):
                break
            srv.kill()
            srv.wait()
            srv = None
            if first.startswith("OPEN-FAILED"):
                return None, "server could not open the database: " + first.strip()
        if srv is None:
            return None, "server did not start"
        threading.Thread(target=lambda: lines.extend(srv.stdout), daemon=True).start()

        def connect():
            for _ in range(50):
                try:
                    return PgConn(port, timeout=180.0)
                except (ConnectionRefusedError, OSError):
                    time.sleep(0.05)
            raise RuntimeError("cannot connect")

        def to_hist(sql, r):
            if r["ok"]:
                rows = [[int(c) if c is not None and c.lstrip("-").isdigit() else c for c in row] for row in r["rows"]]
                return {"sql": sql, "ok": True, "stmts": [[{"rows": rows}]]}
            return {"sql": sql, "ok": False, "err": r["err"]}

        c = connect()
        for q in sc["setup"]:
            r = c.query(q)
            if not r["ok"]:
                return None, f"setup failed: {q}: {r['err']}"
        c.close()
        actors = [a for a in sc["actors"] if a["kind"] == "sql"]
        results = [None] * len(actors)

        def session(i):
            hist = []
            conn = None
            try:
                conn = connect()
                for q in actors[i]["stmts"]:
                    try:
                        hist.append(to_hist(q, conn.query(q)))
                    except PgClosed:
                        hist.append({"sql": q, "ok": False, "panic": True, "closed": True, "err": "the server closed the connection"})
                        conn = connect()
                    except OSError as e:   # socket timeout
                        hist.append({"sql": q, "ok": False, "stuck": True, "wall": True, "err": f"no answer: {e}"})
                        break
                results[i] = {"history": hist}
            except Exception as e:
                results[i] = {"error": f"client: {type(e).__name__}: {e}", "history": hist}
            finally:
                if conn:
                    conn.close()
        ths = [threading.Thread(target=session, args=(i,)) for i in range(len(actors))]
        for t in ths:
            t.start()
        for t in ths:
            t.join()
        out = {"actors": results, "panics": [], "events": [], "setup_events": []}
        # final state through a fresh connection
        fin = []
        c = connect()
        for q in sc["final"]:
            try:
                fin.append(to_hist(q, c.query(q)))
            except PgClosed:
                fin.append({"sql": q, "ok": False, "err": "the server closed the connection", "closed": True})
                c = connect()
        c.close()
        out["final"] = fin
        time.sleep(0.05)
        srv.kill()
        srv.wait()
        time.sleep(0.02)
        out["panics"] = [l[6:].strip() for l in lines if l.startswith("PANIC ")]
        # the directory must open again (the server was killed: everything acknowledged is durable)
        r = Runner()
        try:
            resp = r.cmd({"op": "open", "engine": "disk", "path": path, "block": sc["block"], "rowset": sc["rowset"], "crc": True}, timeout=120)
            out["reopen"] = resp
            if resp.get("ok"):
                out["final_after_reopen"] = []
                for q in sc["final"]:
                    x = r.sql(q, timeout=120)
                    x["sql"] = q
                    out["final_after_reopen"].append(x)
        except Exception as e:
            out["reopen"] = {"ok": False, "err": f"{type(e).__name__}: {e}"}
        finally:
            r.close()
        return out, None
    except Exception as e:
        import traceback
        return None, f"pg leg harness: {type(e).__name__}: {e} {traceback.format_exc()[-200:]}"
    finally:
        if srv and srv.poll() is None:
            srv.kill()
            srv.wait()
        rm(d)


def run_pg_case(args):
    seed, idx, workers = args
    rng = random.Random(f"c10-pg-{seed}-{idx}-{workers}")
    sc, pre, specs = gen_scenario(rng, seed, idx, workers)
    out, err = run_pg_scenario(sc, specs, workers)
    if out is None:
        return dict(seed=seed, idx=idx, mt=workers, pg=True, inconclusive=err, violations=[], info=None)
    try:
        wall = [hh for a in out["actors"] for hh in (a or {}).get("history", []) if hh.get("wall")]
        if wall:
            return dict(seed=seed, idx=idx, mt=workers, pg=True, inconclusive="wall-clock watchdog on a connection", violations=[], info=None)
        closed = [hh for a in out["actors"] for hh in (a or {}).get("history", []) if hh.get("closed")] + [hh for hh in out["final"] if hh.get("closed")]
        if closed:
            # the connection task died (its panic is in out["panics"]); the statement's effect is unknown: no order search
            v = [("pg:connection-dropped:" + (panic_site(out["panics"][0]) if out["panics"] else "no-panic-recorded"),
                  f"{closed[0]['sql'][:100]}: the server closed the connection; panics {out['panics'][:2]}")]
            return dict(seed=seed, idx=idx, mt=workers, pg=True, inconclusive=None, violations=v,
                        info=dict(stmts=0, acked=0, failed=0, verdict=None, mt=workers, sig=None), sample=dict(pg=True, mt=workers, sessions=[a["stmts"][:4] for a in sc["actors"] if a["kind"] == "sql"][:3]))
        v, info = judge(sc, pre, specs, out)
    except Exception as e:
        import traceback
        return dict(seed=seed, idx=idx, mt=workers, pg=True, inconclusive=f"oracle error: {type(e).__name__}: {e} {traceback.format_exc()[-300:]}", violations=[], info=None)
    return dict(seed=seed, idx=idx, mt=workers, pg=True, inconclusive=None, violations=[("pg:" + s_, w_) for s_, w_ in v], info=info,
                sample=dict(pg=True, mt=workers, sessions=[a["stmts"][:4] for a in sc["actors"] if a["kind"] == "sql"][:3]))


def sentinel(w):
    if w.get("churn"):
        return run_churn_case((w["seed"], w["idx"], w["mt"]))["violations"]
    if w.get("pg"):
        return run_pg_case((w["seed"], w["idx"], w["mt"]))["violations"]
    if "scenario" in w:
        # a directed schedule (gates) stored with its model inputs
        out, err = run_scenario(w["scenario"], timeout=120)
        if out is None:
            raise RuntimeError(err)
        specs = [[tuple(tuple(x) if isinstance(x, list) and sp[0] != "insert" else x for x in sp) for sp in sess] for sess in w["specs"]]
        specs = [[(sp[0], sp[1], [tuple(r) for r in sp[2]] if sp[0] == "insert" else sp[2]) for sp in sess] for sess in w["specs"]]
        pre = {n: {int(u): k for u, k in r.items()} for n, r in w["pre"].items()}
        v, _ = judge(w["scenario"], pre, specs, out)
        return v
    res = run_case((w["seed"], w["idx"], w["mt"]))
    return res["violations"]


def run_churn_case(args):
    """DDL churn on a multi-thread runtime: one session creates and drops a table over and over while
    the others select from / insert into / delete from that name. Too long for the serial-order
    search; judged for: no panic, no stuck session, every failure is an ordinary error, the final state
    is readable and survives a reopen."""
    seed, idx, workers = args
    rng = random.Random(f"c10-churn-{seed}-{idx}-{workers}")
    n = rng.choice([30, 60])
    ddl = []
    for _ in range(n):
        ddl += ["create table ta(uid int not null, k int)", "drop table ta"]
    actors = [{"name": "s0", "kind": "sql", "stmts": ddl, "stmt_timeout_ms": 900000}]
    uid = 0
    for si in range(rng.choice([2, 3])):
        stmts = []
        for _ in range(2 * n):
            x = rng.random()
            if x < 0.5:
                stmts.append("select uid, k from ta")
            elif x < 0.8:
                uid += 1
                stmts.append(f"insert into ta values ({uid}, {rng.randint(0, 3)})")
            else:
                stmts.append(f"delete from ta where k = {rng.randint(0, 3)}")
        actors.append({"name": f"s{si + 1}", "kind": "sql", "stmts": stmts, "stmt_timeout_ms": 900000})
    sc = {"seed": seed * 7919 + idx, "block": 64, "rowset": 1000, "crc": True, "mt": workers, "setup": [], "actors": actors,
          "p_yield": 0, "max_yields": 1, "p_sleep": 0, "p_long_sleep": 0, "p_sync_delay": rng.choice([40, 70]),
          "final": ["select * from pg_catalog.pg_tables"], "reopen": True, "final_ticks": 1, "virtual_deadline_ms": 3_600_000}
    out, err = run_scenario(sc, timeout=300)
    if out is None:
        return dict(seed=seed, idx=idx, mt=workers, churn=True, inconclusive=err, violations=[], info=None)
    v = []
    stmts = acked = failed = 0
    if out.get("error"):
        v.append(("database-open-failed", out["error"]))
    for p_ in out.get("panics", []):
        v.append(("panic:" + panic_site(p_), p_[:200]))
    for a in out.get("actors", []):
        if a.get("error"):
            v.append(("session-task-failed", a["error"]))
        for hh in a.get("history", []):
            stmts += 1
            if hh.get("panic"):
                v.append(("session-panicked", hh["sql"][:80]))
            elif hh.get("stuck"):
                v.append(("session-stuck", f"{hh['sql'][:80]}: {hh.get('err')}"))
            elif hh["ok"]:
                acked += 1
            else:
                failed += 1
    fin = out.get("final", [])
    if not fin or not fin[0]["ok"]:
        v.append(("final-state-unreadable", str(fin)[:200]))
    if out.get("reopen") is not None and not out["reopen"].get("ok"):
        v.append(("reopen-failed", str(out["reopen"])[:200]))
    return dict(seed=seed, idx=idx, mt=workers, churn=True, inconclusive=None, violations=[("churn:" + s_, w_) for s_, w_ in v],
                info=dict(stmts=stmts, acked=acked, failed=failed, verdict="churn", mt=workers, sig=None),
                sample=dict(churn=True, mt=workers, sessions=[a["stmts"][:3] for a in actors][:3]))


def run_any_case(args):
    if len(args) == 4 and args[3] == "pg":
        return run_pg_case(args[:3])
    if len(args) == 4 and args[3] == "churn":
        return run_churn_case(args[:3])
    return run_case(args)


def run(tier, seed):
    rep = Report("C10", tier, seed, "exploration")
    n_ct, n_mt = (150, 150) if tier == "quick" else (10000, 10000)
    n_pg = 60 if tier == "quick" else 3000
    rep.rule = ("2-4 sessions x 2-6 statements (CREATE/DROP TABLE on 2 colliding names, INSERT with unique ids, DELETE by id and by predicate (overlapping between sessions), SELECT) "
                "on (a) current-thread runtime + hook perturbation, (b) multi-thread runtime with 2..16 workers and (c) the real PostgreSQL-protocol server (one TCP connection per session, simple-query protocol, then SIGKILL + reopen); offline search "
                "for an explaining serial order; distinct non-trivial = distinct histories in which at least two sessions had "
                "acknowledged statements on the same table name")
    rng = random.Random(seed)
    items = [(seed, i, 0) for i in range(n_ct)] + [(seed, i, rng.choice([2, 4, 8, 16])) for i in range(n_mt)]
    items += [(seed, i, rng.choice([2, 4, 8]), "pg") for i in range(n_pg)]
    n_churn = 24 if tier == "quick" else 600
    items += [(seed, i, rng.choice([4, 8, 16]), "churn") for i in range(n_churn)]
    tot = dict(stmts=0, acked=0, failed=0, explained=0, budget=0, mt_runs=0, ct_runs=0, pg_runs=0, pg_explained=0)
    for res in parallel_map(run_any_case, items, workers=8):
        rep.evaluations += 1
        if res["inconclusive"]:
            rep.inc(("pg: " if res.get("pg") else "mt: " if res["mt"] else "ct: ") + res["inconclusive"][:50])
            continue
        info = res["info"]
        tot["stmts"] += info["stmts"]
        tot["acked"] += info["acked"]
        tot["failed"] += info["failed"]
        if res.get("churn"):
            tot["churn_runs"] = tot.get("churn_runs", 0) + 1
            tot["churn_stmts"] = tot.get("churn_stmts", 0) + info["stmts"]
            for sig, what in res["violations"]:
                rep.add_violation(Violation(sig, "[DDL churn, multi-thread runtime] " + what, dict(seed=res["seed"], idx=res["idx"], mt=res["mt"], churn=True)))
            rep.sample(res["sample"], limit=4)
            continue
        tot["pg_runs" if res.get("pg") else "mt_runs" if res["mt"] else "ct_runs"] += 1
        if info["verdict"] is True:
            tot["explained"] += 1
            if res.get("pg"):
                tot["pg_explained"] += 1
        elif info["verdict"] is None and not res["violations"]:
            tot["budget"] += 1
            rep.inc("serial-order search budget exhausted")
        sess = res["sample"]["sessions"]
        names_by_sess = [set(n for n in NAMES if any(n in s for s in ss)) for ss in sess]
        if len(names_by_sess) >= 2 and set.intersection(*names_by_sess[:2]):
            rep.distinct.add(h(sess))
        rep.sample(res["sample"], limit=3)
        for sig, what in res["violations"]:
            rep.add_violation(Violation(sig, ("[PostgreSQL-protocol server] " if res.get("pg") else "[multi-thread runtime] " if res["mt"] else "") + what,
                                        dict(seed=res["seed"], idx=res["idx"], mt=res["mt"], pg=bool(res.get("pg")))))
    run_sentinels(rep, sentinel)
    rep.coverage.update(statements=tot["stmts"], acknowledged=tot["acked"], failed=tot["failed"],
                        histories_explained_by_a_serial_order=tot["explained"], current_thread_runs=tot["ct_runs"],
                        multi_thread_runs=tot["mt_runs"], pg_server_runs=tot["pg_runs"], pg_server_histories_explained=tot["pg_explained"])
    rep.coverage.update(ddl_churn_runs=tot.get("churn_runs", 0), ddl_churn_statements=tot.get("churn_stmts", 0))
    rep.floor("DDL churn runs judged", tot.get("churn_runs", 0), n_churn // 2)
    rep.floor("PostgreSQL-protocol server histories explained", tot["pg_explained"], n_pg // 2)
    rep.floor("histories explained", tot["explained"], (n_ct + n_mt) // 2)
    rep.floor("multi-thread runs judged", tot["mt_runs"], n_mt // 2)
    rep.assumptions = ["per-session order only (no real-time order across sessions is required)",
                       "a failed statement must be a no-op that the model also rejects at that point, or the documented transient compaction conflict",
                       "the multi-thread legs are stress, not schedule control; a wall-clock watchdog there is inconclusive"]
    if tier == "thorough" and not os.environ.get("VERIF_OVERLAY"):
        import sanitize
        sanitize.overlay(rep, "asan", timeout=7200)
        sanitize.overlay(rep, "tsan", timeout=7200)
    return rep.finish()


def replay(path):
    import json
    w = json.load(open(path))["witness"]
    k = 0
    for i in range(5):
        out = sentinel(w)
        if out:
            k += 1
            print("VIOLATION-REPRO", out[:2])
    print(f"reproduced {k}/5")
    return 1 if k else 0
