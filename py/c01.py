"""C01 - query optimization never changes a query's answer.

Leg A (whole optimizer): generated queries run with PRAGMA enable_optimizer and with PRAGMA
disable_optimizer on the same live database (memory and disk layouts, real or randomly mocked
row counts); results must agree as multisets (key sequence under ORDER BY). A disagreement is
attributed by bisecting with the hook's rule deny-list: the rules whose removal restores
agreement name the finding.
Leg B (single rules): the hook `verif_rewrite_once` applies each of the ~140 rewrite rules at
single matches on a growing pool of plans (bound plan, optimized plan, previously validated
rewrites); both sides are executed by the real executor on the same data."""
import json
import os
import random

from common import Report, Violation, parallel_map, h, run_sentinels, load_known, VERIF, panic_site, attribute_rules
from gen import gen_schema, setup_statements, QueryGen
from sqlcase import RL, DISK_LAYOUTS, ms, ordered_equal, norm_rows

TYPES = ("INT", "BIGINT", "BOOLEAN", "VARCHAR", "DOUBLE", "DECIMAL(10,2)", "DATE")
FEATURES = dict(full_join=False, not_in_sub=False, like=True, bool_col_cond=False, offset_no_limit=True,
                case_no_else=True, corr_in_sub=False, null_lit=True, cross=True, derived_limit=True, avg=True, unordered_limit=True)
# Leg B runs the unoptimized bound plan, which cannot contain subqueries
FEATURES_B = dict(FEATURES, in_sub=False, exists=False, not_exists=False, scalar_sub=False, cte=False, unordered_limit=False)


def make_db(rng, engine_bias=0.5):
    tables = gen_schema(rng, types=TYPES, pk_types=("INT",), max_cols=4, pk_p=0.5)
    stmts = setup_statements(rng, tables, max_rows=rng.choice([6, 12, 30]), max_stmts=4, wide_pk=True)
    if rng.random() < 0.5:
        for t in tables:
            stmts.append(f"SET mock_rowcount_{t.name} = {rng.choice([0, 1, 10, 1000, 100000])}")
    engine = "disk" if rng.random() < engine_bias else "mem"
    layout = rng.choice(DISK_LAYOUTS[:4])
    return tables, stmts, engine, layout


def setup(rl, stmts):
    for s in stmts:
        r = rl.sql(s)
        if not r["ok"] and not s.startswith("SET"):
            return f"setup failed: {s[:50]}: {r.get('err', '')[:50]}"
    return None


def compare(a, b, order):
    if order == "count":   # LIMIT without ORDER BY: the number of rows is determined, which rows is not
        return len(a) == len(b)
    return ordered_equal(a, b, order) if order else ms(a) == ms(b)


def bisect_rules(rl, sql, ref_rows, order, rules_fired):
    """Which single rules, when denied, make the optimized result equal the reference?"""
    culprits = []
    for name in sorted(rules_fired):
        rl.cmd({"op": "deny_rules", "rules": [name]})
        r = rl.sql(sql)
        if r["ok"] and compare(r["rows"], ref_rows, order):
            culprits.append(name)
    rl.cmd({"op": "deny_rules", "rules": []})
    return culprits


def judge_query(rl, sql, order):
    """-> (violation dict or None, compared, ref_failed, opt response)"""
    rl.sql("PRAGMA disable_optimizer")
    ref = rl.sql(sql)
    rl.sql("PRAGMA enable_optimizer")
    opt = rl.sql(sql)
    if ref.get("dead") or opt.get("dead"):
        return "dead", 0, 0, opt
    if not ref["ok"]:
        return None, 0, 1, opt
    if not opt["ok"]:
        pan = panic_site((opt.get("panics") or [""])[0]) if opt.get("panics") else ""
        from c05 import err_class
        sig = "optimized-fails:" + (pan or err_class(opt.get("err", "")))
        if sig.endswith("column-not-found-from-input"):
            from c17 import unresolved_class
            try:
                pc = rl.cmd({"op": "plancheck", "sql": sql}, timeout=60)
                sig += "@" + unresolved_class(pc.get("unresolved") or [])
            except Exception:
                sig += "@unlocated"
        return dict(signature=sig, what=f"{sql[:200]}: unoptimized ok ({len(ref['rows'])} rows), optimized: {opt.get('err', '')[:80]} {opt.get('panics')}", sql=sql), 0, 0, opt
    if not compare(opt["rows"], ref["rows"], order):
        fired = (opt.get("raw", {}).get("rules") or {})
        culprits = bisect_rules(rl, sql, ref["rows"], order, fired)
        # commutativity / associativity rules only expose the match of the real culprit
        core = [c for c in culprits if not c.endswith(("-comm", "-assoc"))] or culprits
        sig = "rule:" + "+".join(core) if core else "optimizer:unattributed"
        if len(core) > 3:
            sig = "optimizer:many-rules"
        sig = attribute_rules(core, "C01", "rule:") or sig
        return dict(signature=sig, what=f"{sql[:220]}: optimized {opt['rows'][:4]} ({len(opt['rows'])} rows) vs unoptimized {ref['rows'][:4]} ({len(ref['rows'])} rows); restored by denying {culprits}", sql=sql), 1, 0, opt
    return None, 1, 0, opt


def run_case_a(args):
    seed, idx, nq = args
    rng = random.Random(f"c01a-{seed}-{idx}")
    tables, stmts, engine, layout = make_db(rng)
    res = dict(leg="A", seed=seed, idx=idx, violations=[], evals=0, compared=0, ref_failed=0, nontrivial=[], rules={}, inconclusive=None, sample=None)
    rl = RL(engine, layout)
    try:
        err = setup(rl, stmts)
        if err:
            res["inconclusive"] = err
            return res
        g = QueryGen(rng, tables, FEATURES)
        for _ in range(nq):
            q = g.query()
            order = "count" if q.count_only else q.order
            v, compared, ref_failed, opt = judge_query(rl, q.sql, order)
            res["evals"] += 1
            if v == "dead":
                res["inconclusive"] = "runner died"
                break
            for k, n in (opt.get("raw", {}).get("rules") or {}).items():
                res["rules"][k] = res["rules"].get(k, 0) + n
            res["compared"] += compared
            res["ref_failed"] += ref_failed
            if v:
                v["concrete"] = dict(leg="A", setup=stmts, engine=engine, layout=layout, sql=q.sql, order=order)
                res["violations"].append(v)
            elif compared and opt.get("rows") and fired_nontrivial(opt):
                res["nontrivial"].append(h(q.sql))
        res["sample"] = dict(engine=engine, layout=layout if engine == "disk" else None, setup=stmts[:2], query=q.sql[:160])
        # key-range push-down over runs of equal keys (a stream of its own, after everything else): on disk the optimizer turns a
        # range on the INT key into a range scan that seeks through the block index; runs of equal key values that end and start
        # blocks are where that seek can lose rows. Every key value is used as a bound.
        rng2 = random.Random(f"c01a2-{seed}-{idx}")
        if engine == "disk" and rng2.random() < 0.5:
            nk, nrows = rng2.choice([3, 6, 12]), rng2.choice([60, 120, 250])
            keys = [rng2.randrange(nk) * rng2.choice([1, 1, 3]) for _ in range(nrows)]
            extra = ["CREATE TABLE dk(k INT PRIMARY KEY, v INT)",
                     "INSERT INTO dk VALUES " + ", ".join(f"({kv}, {i})" for i, kv in enumerate(keys)),
                     f"SET mock_rowcount_dk = {nrows}"]
            err = setup(rl, extra)
            if err:
                res["inconclusive"] = err
                return res
            for kv in sorted(set(keys)):
                for op in rng2.sample([">=", "=", ">", "<=", "<"], 2) + [">="]:
                    sql = rng2.choice([f"SELECT COUNT(*), SUM(v) FROM dk WHERE k {op} {kv}", f"SELECT k, v FROM dk WHERE k {op} {kv}",
                                       f"SELECT v FROM dk WHERE k {op} {kv} AND v % 3 = 1"])
                    v, compared, ref_failed, opt = judge_query(rl, sql, None)
                    res["evals"] += 1
                    if v == "dead":
                        res["inconclusive"] = "runner died"
                        break
                    for k_, n_ in (opt.get("raw", {}).get("rules") or {}).items():
                        res["rules"][k_] = res["rules"].get(k_, 0) + n_
                    res["compared"] += compared
                    res["key_run_probes"] = res.get("key_run_probes", 0) + compared
                    if v:
                        v["concrete"] = dict(leg="A", setup=stmts + extra, engine=engine, layout=layout, sql=sql, order=None)
                        res["violations"].append(v)
    except Exception as e:
        res["inconclusive"] = f"harness: {type(e).__name__}: {e}"
    finally:
        rl.close()
    if res["violations"]:
        res["witness"] = dict(leg="A", seed=seed, idx=idx, nq=nq)
    return res


def fired_nontrivial(opt):
    fired = (opt.get("raw", {}).get("rules") or {})
    return len(fired) > 3


def run_case_b(args):
    seed, idx, nq = args
    rng = random.Random(f"c01b-{seed}-{idx}")
    tables, stmts, engine, layout = make_db(rng, engine_bias=0.3)
    res = dict(leg="B", seed=seed, idx=idx, violations=[], evals=0, per_rule={}, inconclusive=None, sample=None, nontrivial=[])
    rl = RL(engine, layout)
    try:
        err = setup(rl, stmts)
        if err:
            res["inconclusive"] = err
            return res
        g = QueryGen(rng, tables, FEATURES_B)
        for _ in range(nq):
            q = g.query()
            try:
                r = rl.cmd({"op": "rewrite", "sql": q.sql, "max_matches": 3, "max_pool": 6}, timeout=120)
            except Exception as e:
                res["inconclusive"] = f"runner: {type(e).__name__}"
                break
            if not r.get("ok"):
                continue
            res["evals"] += r.get("executed", 0)
            for name, c in r["per_rule"].items():
                p = res["per_rule"].setdefault(name, [0, 0, 0, 0])
                for i in range(4):
                    p[i] += c[i]
                if c[0]:
                    res["nontrivial"].append(h([q.sql, name]))
            for d in r["diffs"]:
                if d["kind"] == "rewrite-panics":
                    res["violations"].append(dict(signature=f"rule-panics:{d['rule']}", what=f"applying {d['rule']} on {d['lhs'][:150]} panics", sql=q.sql, rule=d["rule"]))
                else:
                    res["violations"].append(dict(signature=f"rule:{d['rule']}",
                                                  what=f"{d['rule']}: {d['lhs'][:170]} ({d['lhs_n']} rows {d['lhs_rows'][:3]}) => {d['rhs'][:170]} ({d['rhs_n']} rows {d['rhs_rows'][:3]})",
                                                  sql=q.sql, rule=d["rule"]))
        res["sample"] = dict(engine=engine, query=q.sql[:160])
    except Exception as e:
        res["inconclusive"] = f"harness: {type(e).__name__}: {e}"
    finally:
        rl.close()
    if res["violations"]:
        res["witness"] = dict(leg="B", seed=seed, idx=idx, nq=nq)
    return res


def sentinel(w):
    """Stored sentinel: setup statements + query + rule; reproduces through the rewrite op."""
    if w.get("leg") == "A" and "setup" in w:
        rl = RL(w["engine"], w["layout"])
        try:
            if setup(rl, w["setup"]):
                return []
            v, _, _, _ = judge_query(rl, w["sql"], "count" if w.get("order") == "count" else [tuple(x) for x in (w.get("order") or [])])
            if isinstance(v, dict):
                return [(w.get("fixed_signature") or v["signature"], v["what"])]
            return []
        finally:
            rl.close()
    if "setup" in w:
        rl = RL("mem")
        try:
            for s in w["setup"]:
                rl.sql(s)
            r = rl.cmd({"op": "rewrite", "sql": w["sql"], "rules": [w["rule"]], "max_matches": 6, "max_pool": 6}, timeout=120)
            out = []
            for d in r.get("diffs", []):
                if d["kind"] == "rows-differ":
                    out.append((f"rule:{d['rule']}", f"{d['rule']}: {d['lhs'][:150]} => {d['rhs'][:150]}: {d['lhs_rows'][:3]} vs {d['rhs_rows'][:3]}"))
            return out[:1]
        finally:
            rl.close()
    fn = run_case_a if w["leg"] == "A" else run_case_b
    res = fn((w["seed"], w["idx"], w["nq"]))
    return [(v["signature"], v["what"]) for v in res["violations"]]


def run(tier, seed):
    rep = Report("C01", tier, seed, "exploration")
    na, nb, nq = (50, 50, 12) if tier == "quick" else (4000, 4000, 15)
    rep.rule = ("leg A: generated queries (joins incl. outer, aggregates, subqueries, DISTINCT, ORDER/LIMIT/OFFSET, CTE, derived "
                "tables) with the optimizer on vs off, memory and 4 disk layouts, real or mocked statistics; leg B: every rewrite "
                "rule applied alone at up to 3 matches on a pool of up to 6 plans per query, both sides executed; distinct "
                "non-trivial = distinct queries whose optimized run fired more than 3 rules and returned rows (A) plus distinct "
                "(query, rule) pairs with a validated single-rule rewrite (B)")
    fired, per_rule = {}, {}
    tot = dict(compared=0, ref_failed=0)
    items = [("A", (seed, i, nq)) for i in range(na)] + [("B", (seed, i, nq)) for i in range(nb)]
    for res in parallel_map(dispatch, items):
        rep.evaluations += res["evals"]
        rep.distinct.update(res.get("nontrivial", []))
        if res["inconclusive"]:
            rep.inc(res["inconclusive"][:50])
        if res.get("sample"):
            rep.sample(dict(leg=res["leg"], **res["sample"]), limit=4)
        if res["leg"] == "A":
            tot["compared"] += res["compared"]
            tot["key_run_probes"] = tot.get("key_run_probes", 0) + res.get("key_run_probes", 0)
            tot["ref_failed"] += res["ref_failed"]
            for k, v in res["rules"].items():
                fired[k] = fired.get(k, 0) + v
        else:
            for k, c in res["per_rule"].items():
                p = per_rule.setdefault(k, [0, 0, 0, 0])
                for i in range(4):
                    p[i] += c[i]
        for v in res["violations"]:
            rep.add_violation(Violation(v["signature"], v["what"], v.get("concrete") or dict(res.get("witness", {}), sql=v.get("sql"), rule=v.get("rule"))))
    run_sentinels(rep, sentinel)
    try:
        rl = RL("mem")
        allrules = [n for _, n in rl.cmd({"op": "rule_names"})["rules"]]
        rl.close()
    except Exception:
        allrules = []
    validated = sorted(k for k, c in per_rule.items() if c[0])
    rep.coverage.update(
        queries_compared_on_vs_off=tot["compared"], key_range_probes_over_equal_key_runs_compared=tot.get("key_run_probes", 0), queries_without_unoptimized_reference=tot["ref_failed"],
        rules_fired_in_optimized_runs=len(fired), rules_with_validated_single_rewrite=len(validated),
        rules_never_applied_alone=sorted(set(allrules) - set(per_rule)),
        rules_applied_but_never_comparable=sorted(k for k, c in per_rule.items() if not c[0] and not c[1]),
        single_rule_rewrites_validated=sum(c[0] for c in per_rule.values()),
        single_rule_rewrites_differing=sum(c[1] for c in per_rule.values()),
        single_rule_rewrites_rhs_not_executable=sum(c[3] for c in per_rule.values()))
    rep.floor("on/off comparisons", tot["compared"], na * 3)
    rep.floor("rules with a validated single-rule rewrite", len(validated), 60)
    rep.assumptions = ["the unoptimized execution is the reference; queries it cannot run (subqueries) have no reference in leg A",
                       "an intermediate single-rule result that the executor cannot run is inconclusive, not a violation",
                       "LIMIT is generated under a total order, or without any ORDER BY (then only the number of rows is compared); SUM over DOUBLE is not generated"]
    return rep.finish()


def dispatch(item):
    leg, args = item
    return run_case_a(args) if leg == "A" else run_case_b(args)


def replay(path):
    w = json.load(open(path))["witness"]
    out = sentinel(w)
    for s in out[:5]:
        print("VIOLATION-REPRO", s)
    return 1 if out else 0
