"""C09 - background compaction never loses or resurrects rows under concurrency.

2-4 SQL client tasks insert rows with unique ids and delete ids whose insert they saw
acknowledged, on 1-3 tables of tiny row-sets, while the engine's compactor and vacuum run (clock
actor; the handler perturbs / gates the hook points inside Compactor::run, transaction start and
commit). By construction the final content is the same for every legal interleaving:
acknowledged inserts minus acknowledged deletes. Checked after all operations and passes have
finished, and again after shutdown + reopen. A statement that failed must have had no effect."""
from sqlcase import is_conflict_text
import os
import random

from common import Report, Violation, parallel_map, h, run_sentinels, panic_site
from schedlib import run_scenario, stmt_rows, trace_spec, interleaving_signature
from sqlcase import ms


def gen_scenario(rng, seed, idx, directed=None):
    ntab = rng.choice([1, 2, 2, 3])
    setup, rows = [], {}
    uid = [0]
    for t in range(ntab):
        name = f"t{t}"
        pk = rng.random() < 0.4
        setup.append(f"create table {name}(uid int {'primary key' if pk else 'not null'}, k int)")
        rows[name] = {}
    nclients = rng.choice([2, 3, 4])
    actors, effects_all = [], []
    # setup rows are owned round-robin by the clients
    owned = [dict((n, []) for n in rows) for _ in range(nclients)]
    for name in rows:
        for _ in range(rng.randint(1, 3)):
            part = []
            for _ in range(rng.choice([2, 5, 9])):
                part.append((uid[0], rng.randint(0, 3)))
                owned[uid[0] % nclients][name].append(uid[0])
                uid[0] += 1
            setup.append(f"insert into {name} values " + ", ".join(f"({u}, {k})" for u, k in part))
            rows[name].update(part)
    for c in range(nclients):
        stmts, effects = [], []
        for _ in range(rng.randint(3, 8)):
            name = rng.choice(sorted(rows))
            if rng.random() < 0.5 or not owned[c][name]:
                part = []
                for _ in range(rng.choice([1, 3, 7])):
                    part.append((uid[0], rng.randint(0, 3)))
                    uid[0] += 1
                stmts.append(f"insert into {name} values " + ", ".join(f"({u}, {k})" for u, k in part))
                effects.append(("ins", name, part))
                owned[c][name].extend(u for u, _ in part)
            else:
                dels = rng.sample(owned[c][name], min(len(owned[c][name]), rng.choice([1, 2, 5])))
                for u in dels:
                    owned[c][name].remove(u)
                stmts.append(f"delete from {name} where " + " or ".join(f"uid = {u}" for u in dels))
                effects.append(("del", name, dels))
            if rng.random() < 0.35:
                stmts.append(f"<sleep {rng.choice([1, 2, 500, 1000, 1001])}>")
        actors.append({"name": f"c{c}", "kind": "sql", "stmts": stmts, "delay_ms": rng.choice([0, 0, 1, 3, 999])})
        effects_all.append(effects)
    actors.append({"name": "clk", "kind": "clock", "ticks": rng.choice([2, 3, 5]), "tick_ms": rng.choice([1001, 1001, 500])})
    sc = {"seed": seed * 100003 + idx, "block": rng.choice([32, 64]), "rowset": rng.choice([120, 250, 600]), "crc": True,
          "setup": setup, "actors": actors, "p_yield": rng.choice([0, 30, 60, 90]), "max_yields": rng.choice([1, 4, 8]),
          "p_sleep": rng.choice([0, 10, 30]), "p_long_sleep": rng.choice([0, 5, 20, 60]), "final": [f"select * from {n}" for n in sorted(rows)], "reopen": True,
          "final_ticks": 3}
    if directed:
        sc["gates"] = [directed]
        sc["p_yield"], sc["p_sleep"] = 15, 0
    return sc, rows, effects_all


def judge(sc, rows, effects_all, out):
    v = []
    info = dict(acked=0, failed=0, conflicts=0)
    if out.get("error"):
        return [("database-open-failed", out["error"])], info
    for p in out.get("panics", []):
        v.append(("panic:" + panic_site(p), p[:200]))
    model = {n: dict(r) for n, r in rows.items()}
    maybe = {n: {} for n in rows}       # effects of failed statements: must be absent
    for c, effects in enumerate(effects_all):
        hist = out["actors"][c].get("history", [])
        for i, hh in enumerate(hist):
            eff = effects[i]
            if hh.get("panic") or hh.get("stuck"):
                v.append(("client-" + ("panicked" if hh.get("panic") else "stuck"), f"{hh['sql'][:80]}: {hh.get('err')}"))
            if hh["ok"]:
                info["acked"] += 1
                kind, name, arg = eff
                n = stmt_rows(hh)
                if kind == "ins":
                    model[name].update(arg)
                    if n != [(len(arg),)]:
                        v.append(("insert-count", f"{hh['sql'][:60]} reported {n}"))
                else:
                    for u in arg:
                        model[name].pop(u, None)
                    if n != [(len(arg),)]:
                        v.append(("delete-count", f"{hh['sql'][:60]} reported {n} for {len(arg)} ids"))
            else:
                info["failed"] += 1
                if is_conflict_text(hh.get("err")):
                    info["conflicts"] += 1
                kind, name, arg = eff
                maybe[name][i, c] = eff
    for label, hist in (("final", out.get("final", [])), ("after-reopen", out.get("final_after_reopen", []))):
        for hh in hist:
            name = hh["sql"].split()[-1]
            if not hh["ok"]:
                v.append((f"{label}-select-failed", f"{hh['sql']}: {hh.get('err')}"))
                continue
            got = stmt_rows(hh)
            uids = [x[0] for x in got]
            if ms(got) != ms(list(model[name].items())):
                lost = sorted(set(model[name]) - set(uids))[:6]
                extra = sorted(set(uids) - set(model[name]))[:6]
                dup = sorted({u for u in uids if uids.count(u) > 1})[:6]
                # classify against failed statements
                failed_ins = {u for e in maybe[name].values() if e[0] == "ins" for u, _ in e[2]}
                failed_del = {u for e in maybe[name].values() if e[0] == "del" for u in e[2]}
                if extra and set(extra) <= failed_ins or lost and set(lost) <= failed_del:
                    sig = f"{label}:failed-statement-took-effect"
                elif dup:
                    sig = f"{label}:row-duplicated"
                elif extra:
                    sig = f"{label}:deleted-row-resurrected"
                else:
                    sig = f"{label}:acknowledged-row-lost"
                v.append((sig, f"{name}: lost uids {lost}, unexpected uids {extra}, duplicated {dup} ({len(got)} rows, model {len(model[name])})"))
    if out.get("reopen") and not out["reopen"].get("ok"):
        v.append(("reopen-failed", str(out["reopen"])[:200]))
    tv, stats = trace_spec(out.get("setup_events", []) + out.get("events", []))
    v.extend(tv)
    comp = [e for e in out.get("events", []) if e[2] == "compactor.committed"]
    info.update(trace=stats, compactions=len(comp), sig=interleaving_signature(out.get("events", [])),
                points=out.get("points_hit", {}), infeasible=out.get("infeasible_gates", 0))
    # compactions overlapping a client statement (commit between its invoke and return)
    wins = [(hh.get("inv", 0), hh.get("ret", 0)) for a in out["actors"] if a.get("kind") == "sql" for hh in a.get("history", [])]
    info["compactions_inside_statements"] = sum(1 for e in comp if any(a < e[0] < b for a, b in wins))
    if out.get("deadlock"):
        v.append(("virtual-deadline", "a client never finished (virtual time)"))
    return v, info


def run_case(args):
    seed, idx, directed = args
    rng = random.Random(f"c09-{seed}-{idx}")
    sc, rows, effects = gen_scenario(rng, seed, idx, directed)
    out, err = run_scenario(sc, timeout=240)
    if out is None:
        return dict(seed=seed, idx=idx, inconclusive=err, violations=[], info=None, directed=directed)
    try:
        v, info = judge(sc, rows, effects, out)
    except Exception as e:
        import traceback
        return dict(seed=seed, idx=idx, inconclusive=f"oracle error: {type(e).__name__}: {e} {traceback.format_exc()[-300:]}", violations=[], info=None, directed=directed)
    return dict(seed=seed, idx=idx, inconclusive=None, violations=v, info=info, directed=directed,
                sample=dict(clients=[a["stmts"][:3] for a in sc["actors"] if a["kind"] == "sql"][:2], tables=len(rows)))


def directed_gates():
    gs = []
    # W1: compactor parked before a table's lock until a client commit, W2: client parked after start until a compaction commits
    for t in (0, 1, 2):
        gs.append({"actor": "bg", "point": "compactor.before_lock", "arg0": t, "until": "commit"})
        gs.append({"actor": "bg", "point": "compactor.after_read", "arg0": t, "until": "pin"})
        gs.append({"actor": "bg", "point": "compactor.before_commit", "arg0": t, "until": "pin"})
    for p in ["txn.start", "txn.after_pin", "txn.commit_begin", "txn.before_commit"]:
        gs.append({"actor": "bg", "point": p, "until": "compactor.committed"})
        gs.append({"actor": "bg", "point": p, "until": "commit"})
    return gs


def sentinel(w):
    res = run_case((w["seed"], w["idx"], w.get("directed")))
    return res["violations"]


def run(tier, seed):
    rep = Report("C09", tier, seed, "exploration")
    n = 800 if tier == "quick" else 12000
    rep.rule = ("2-4 SQL clients (inserts with unique ids, deletes of ids whose insert the same client saw acknowledged) on 1-3 "
                "tables of tiny row-sets, compactor + vacuum driven by a clock actor, seeded perturbation at the hook points in "
                "Compactor::run / transaction start / commit (thorough: directed gates for the pin-vs-lock windows); distinct "
                "non-trivial = distinct interleaving signatures of runs in which a compaction committed between the invoke and "
                "the return of a client statement")
    items = [(seed, i, None) for i in range(n)]
    if tier == "thorough":
        gs = directed_gates()
        items += [(seed, 100000 + i, gs[i % len(gs)]) for i in range(len(gs) * 60)]
    tot = dict(acked=0, failed=0, conflicts=0, compactions=0, inside=0, infeasible=0)
    points, sigs = {}, set()
    for res in parallel_map(run_case, items):
        rep.evaluations += 1
        if res["inconclusive"]:
            rep.inc(res["inconclusive"][:60])
            continue
        info = res["info"]
        for k, kk in (("acked", "acked"), ("failed", "failed"), ("conflicts", "conflicts"), ("compactions", "compactions"),
                      ("inside", "compactions_inside_statements"), ("infeasible", "infeasible")):
            tot[k] += info.get(kk, 0)
        for k, x in info.get("points", {}).items():
            points[k] = points.get(k, 0) + x
        sigs.add(info["sig"])
        if info.get("compactions_inside_statements"):
            rep.distinct.add(info["sig"])
        rep.sample(res["sample"], limit=3)
        for sig, what in res["violations"]:
            rep.add_violation(Violation(sig, what, dict(seed=res["seed"], idx=res["idx"], directed=res["directed"])))
    run_sentinels(rep, sentinel)
    rep.coverage.update(statements_acknowledged=tot["acked"], statements_failed=tot["failed"],
                        of_which_compaction_conflicts=tot["conflicts"], compactor_commits=tot["compactions"],
                        compactor_commits_inside_a_client_statement=tot["inside"], distinct_interleaving_signatures=len(sigs),
                        hook_points_hit=points, infeasible_directed_gates=tot["infeasible"])
    rep.floor("compactor commits observed", tot["compactions"], n)
    rep.floor("compactor commits inside a client statement window", tot["inside"], n // 10)
    rep.floor("acknowledged statements", tot["acked"], n * 6)
    rep.assumptions = ["current-thread runtime with a paused clock; multi-thread legs are in C10",
                       "a DELETE that reports the compaction conflict error is not acknowledged and must have no effect"]
    if tier == "thorough" and not os.environ.get("VERIF_OVERLAY"):
        import sanitize
        sanitize.overlay(rep, "asan", timeout=5400)
    return rep.finish()


def replay(path):
    import json
    w = json.load(open(path))["witness"]
    k = 0
    for i in range(5):
        out = sentinel(w)
        if out:
            k += 1
            print("VIOLATION-REPRO", out[:2])
    print(f"reproduced {k}/5")
    return 1 if k else 0
