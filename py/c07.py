"""C07 - deletes are exact and permanent; compaction is invisible.

Single-session histories over {insert batch, delete where p, compaction pass, reopen} on tiny
row-sets; every row carries a unique id so a resurrected, lost or duplicated row is named.
After every step SELECT * must equal the model; DELETE must report the model's count; a
compaction pass (confirmed by the compactor's own trace event) must not change any result; a
table with a primary key must come back in key order."""
import os
import random

from common import Report, Violation, parallel_map, h, run_sentinels
from gen import Col, Table, lit
from model import ModelTable, gen_pred
from sqlcase import sql_retry, RL, ms

LAYOUTS = [
    dict(block=32, rowset=150, crc=True, first_key=True),
    dict(block=64, rowset=400, crc=False, first_key=True),
    dict(block=128, rowset=1500, crc=True, first_key=True),
    dict(block=4096, rowset=100000, crc=True, first_key=True),
]


def make_table(rng, name):
    shape = rng.choice(["pk_first", "pk_mid", "nopk", "nopk", "pk_first"])
    cols = [Col("uid", "INT", nullable=False)]
    cols += [Col("k", "INT"), Col("v", "VARCHAR"), Col("w", rng.choice(["BIGINT", "BOOLEAN", "INT"]))]
    if shape == "pk_first":
        cols[0].pk = True
    elif shape == "pk_mid":
        cols = [cols[1], cols[0], cols[2], cols[3]]
        cols[1].pk = True
    return Table(name, cols)


def gen_row(rng, table, uid, lowcard):
    row = []
    for c in table.cols:
        if c.name == "uid":
            row.append(uid)
        elif c.typ in ("INT", "BIGINT"):
            row.append(None if rng.random() < 0.1 else rng.choice([0, 1, 2] if lowcard else [-2, -1, 0, 1, 2, 3, 5, 7]))
        elif c.typ == "VARCHAR":
            row.append(None if rng.random() < 0.1 else rng.choice(["a", "b"] if lowcard else ["a", "b", "ab", "", "z"]))
        else:
            row.append(None if rng.random() < 0.1 else rng.random() < 0.5)
    return tuple(row)


def run_history(args):
    seed, idx, nsteps = args
    rng = random.Random(f"c07-{seed}-{idx}")
    crng = random.Random(f"c07-checks-{seed}-{idx}")   # separate stream: the histories stay the same
    layout = rng.choice(LAYOUTS)
    lowcard = rng.random() < 0.5
    ntab = rng.choice([1, 1, 2])
    res = dict(seed=seed, idx=idx, violations=[], steps=0, compactions=0, compaction_outputs=0, deletes=0, deleted_rows=0,
               reopens=0, history=[], inconclusive=None, layout=layout, vacuumed=0)
    rl = RL("disk", layout)
    hist = res["history"]
    models = {}
    next_uid = [0]

    def fail(sig, what):
        res["violations"].append(dict(signature=sig, what=what))

    def py(r):
        return tuple(int(v) if isinstance(v, bool) else v for v in r)

    def check(tag):
        for name, mt in models.items():
            r = rl.sql(f"select * from {name}")
            if not r["ok"]:
                fail("select-failed", f"{tag}: select * from {name}: {r.get('err')} {r.get('panics')}")
                return False
            want = ms([py(x) for x in mt.rows])
            got = ms(r["rows"])
            if got != want:
                ui = [i for i, c in enumerate(mt.table.cols) if c.name == "uid"][0]
                wu, gu = sorted(x[ui] for x in want), sorted(x[ui] for x in got)
                lost = [u for u in wu if u not in gu][:5]
                extra = [u for u in gu if u not in wu][:5]
                dup = sorted({u for u in gu if gu.count(u) > 1})[:5]
                kind = "resurrected" if extra else ("lost" if lost else ("duplicated" if dup else "changed"))
                fail(f"rows-{kind}", f"{tag}: {name}: lost uids {lost}, unexpected uids {extra}, duplicated {dup} ({len(got)} rows vs model {len(want)})")
                return False
            if mt.table.pk():
                pki = [i for i, c in enumerate(mt.table.cols) if c.pk][0]
                keys = [x[pki] for x in r["rows"]]
                if keys != sorted(keys):
                    fail("pk-scan-not-in-key-order", f"{tag}: {name}: scan of primary-key table not in key order: {keys[:12]}")
                    return False
            # deleted rows must stay deleted on every access path: key-range reads (pushed into the
            # scan when uid is the leading primary key) and range counts
            if mt.rows and crng.random() < 0.6:
                ui = [i for i, c in enumerate(mt.table.cols) if c.name == "uid"][0]
                uids = sorted(x[ui] for x in mt.rows)
                x = crng.choice(uids + [uids[0] - 1, uids[-1] + 1, next_uid[0] // 2])
                op = crng.choice([">=", "<=", ">", "<", "="])
                f = {">=": lambda u: u >= x, "<=": lambda u: u <= x, ">": lambda u: u > x, "<": lambda u: u < x, "=": lambda u: u == x}[op]
                wantu = sorted(u for u in uids if f(u))
                q = f"select uid from {name} where uid {op} {x}"
                r = rl.sql(q)
                res["range_reads"] = res.get("range_reads", 0) + 1
                if not r["ok"]:
                    fail("select-failed", f"{tag}: {q}: {r.get('err')} {r.get('panics')}")
                    return False
                gotu = sorted(v[0] for v in r["rows"])
                if gotu != wantu:
                    extra = [u for u in gotu if u not in wantu][:5]
                    lost = [u for u in wantu if u not in gotu][:5]
                    fail("range-read-" + ("resurrected" if extra else "lost"), f"{tag}: {q}: unexpected uids {extra}, lost uids {lost} ({len(gotu)} rows vs model {len(wantu)})")
                    return False
                r = rl.sql(f"select count(*) from {name} where uid {op} {x}")
                if r["ok"] and r["rows"] != [(len(wantu),)]:
                    fail("range-count", f"{tag}: select count(*) from {name} where uid {op} {x}: {r['rows']} vs model {len(wantu)}")
                    return False
        return True

    try:
        rl.cmd({"op": "events", "record": True})
        for ti in range(ntab):
            t = make_table(rng, f"t{ti}")
            r = rl.sql(t.ddl())
            hist.append(t.ddl())
            if not r["ok"]:
                raise RuntimeError("create failed: " + str(r))
            models[t.name] = ModelTable(t)
        for step in range(nsteps):
            res["steps"] += 1
            k = rng.choice(["insert"] * 5 + ["delete"] * 4 + ["compact"] * 3 + ["reopen"])
            mt = models[rng.choice(sorted(models))]
            if k == "insert":
                n = rng.choice([1, 2, 3, 5, 9, 25])
                rows = []
                for _ in range(n):
                    rows.append(gen_row(rng, mt.table, next_uid[0], lowcard))
                    next_uid[0] += 1
                rng.shuffle(rows)
                vals = ", ".join("(" + ", ".join(lit(v, c.typ) for v, c in zip(x, mt.table.cols)) + ")" for x in rows)
                sql = f"insert into {mt.table.name} values {vals}"
                r = rl.sql(sql)
                hist.append(sql)
                if r.get("dead"):
                    res["inconclusive"] = "runner died: " + r["err"][:80]
                    break
                if not r["ok"]:
                    fail("insert-failed", f"{sql[:120]}: {r.get('err')} {r.get('panics')}")
                    break
                mt.insert(rows)
            elif k == "delete":
                p = gen_pred(rng, mt.table)
                sql = f"delete from {mt.table.name} where {p.sql}"
                r = sql_retry(rl, sql)
                hist.append(sql)
                if r.get("dead"):
                    res["inconclusive"] = "runner died: " + r["err"][:80]
                    break
                if not r["ok"]:
                    fail("delete-failed", f"{sql}: {r.get('err')} {r.get('panics')}")
                    break
                n = mt.delete(p)
                res["deletes"] += 1
                res["deleted_rows"] += n
                if r["rows"] != [(n,)]:
                    fail("delete-count", f"{sql}: reported {r['rows']} but the model removed {n}")
                    break
            elif k == "compact":
                before = {name: ms(rl.sql(f"select * from {name}").get("rows", [])) for name in models}
                rl.cmd({"op": "tick", "secs": 1})
                ev = rl.cmd({"op": "events", "record": True})["events"]
                c = [e for e in ev if e[0] == "compactor.committed"]
                res["compactions"] += len(c)
                res["compaction_outputs"] += sum(1 for e in c if e[1][1] != 18446744073709551615)
                res["vacuumed"] += sum(1 for e in ev if e[0] == "vacuum_unlinked")
                hist.append(f"<compaction pass: {[e[1] for e in c]}>")
                for name in models:
                    r = rl.sql(f"select * from {name}")
                    if r["ok"] and ms(r["rows"]) != before[name]:
                        fail("compaction-visible", f"{name}: scan before compaction != scan after ({len(before[name])} vs {len(r['rows'])} rows)")
                        break
            elif k == "reopen":
                r = rl.cmd({"op": "reopen"})
                hist.append("<shutdown+reopen>")
                res["reopens"] += 1
                if not r.get("ok"):
                    fail("reopen-failed", f"{r.get('err')} {r.get('panics')}")
                    break
                rl.cmd({"op": "events", "record": True})
            if res["violations"] or not check(f"step {step} ({k})"):
                break
    except Exception as e:
        res["inconclusive"] = f"harness: {type(e).__name__}: {e}"
    finally:
        rl.close()
    return res


def sentinel(w):
    res = run_history((w["seed"], w["idx"], w["nsteps"]))
    return [(v["signature"], v["what"]) for v in res["violations"]]


def run(tier, seed):
    rep = Report("C07", tier, seed, "exploration")
    n, nsteps = (500, 30) if tier == "quick" else (5000, 40)
    rep.rule = ("random histories of insert batches / DELETE WHERE p / compaction passes / reopen on 1-2 tables (primary key "
                "first, in the middle, or none; low-cardinality data so compaction picks dictionary encoding) over 4 layouts; "
                "distinct non-trivial = histories in which at least one compaction merged row-sets after a delete removed rows")
    tot = dict(compactions=0, outputs=0, deletes=0, deleted_rows=0, reopens=0, steps=0, vacuumed=0, range_reads=0)
    for res in parallel_map(run_history, [(seed, i, nsteps) for i in range(n)]):
        rep.evaluations += res["steps"]
        tot["compactions"] += res["compactions"]
        tot["outputs"] += res["compaction_outputs"]
        tot["deletes"] += res["deletes"]
        tot["deleted_rows"] += res["deleted_rows"]
        tot["range_reads"] += res.get("range_reads", 0)
        tot["reopens"] += res["reopens"]
        tot["vacuumed"] += res["vacuumed"]
        if res["inconclusive"]:
            rep.inc(res["inconclusive"][:60])
            continue
        if res["compactions"] and res["deleted_rows"]:
            rep.distinct.add(h(res["history"]))
        rep.sample(dict(layout=res["layout"], history=[x[:90] for x in res["history"][:10]]), limit=3)
        for v in res["violations"]:
            rep.add_violation(Violation(v["signature"], v["what"], dict(seed=res["seed"], idx=res["idx"], nsteps=nsteps, history=res["history"])))
    run_sentinels(rep, sentinel)
    rep.coverage.update(compactor_commits_observed=tot["compactions"], compactions_with_output_rowset=tot["outputs"],
                        deletes=tot["deletes"], rows_deleted=tot["deleted_rows"], reopens=tot["reopens"],
                        rowsets_vacuumed=tot["vacuumed"])
    rep.floor("compactor commits observed (hook event)", tot["compactions"], n // 2)
    rep.floor("rows deleted", tot["deleted_rows"], n)
    rep.coverage["key_range_reads_compared_with_the_model"] = tot["range_reads"]
    rep.floor("key-range reads judged", tot["range_reads"], n)
    rep.assumptions = ["compaction passes are driven by the engine's own 1 s timer on a paused tokio clock (one pass per virtual second)",
                       "key-order of a primary-key table is observed through SELECT * (the scan executor requests the ordered merge scan)"]
    if tier == "thorough" and not os.environ.get("VERIF_OVERLAY"):
        import sanitize
        sanitize.overlay(rep, "asan", timeout=5400)
    return rep.finish()


def replay(path):
    import json
    w = json.load(open(path))["witness"]
    out = sentinel(w)
    for s in out:
        print("VIOLATION-REPRO", s)
    return 1 if out else 0
