"""C15 - a failing statement reports an error, never a partial answer.

Fault enumeration through the operator output hook: an observe run records, per operator of the
plan, how many chunks it produced; then an error or a panic is injected at (operator, k) for
sampled k (first, middle, last, end-of-stream) in separate executions of the same statement.
The statement must fail, or (fault hit a producer whose consumer had already finished) return
exactly the fault-free rows. Failed INSERT/DELETE must leave the target table unchanged."""
import random

from common import Report, Violation, parallel_map, h, run_sentinels
from gen import Col, Table, lit, QueryGen
from sqlcase import RL, ms, DISK_LAYOUTS, is_conflict

FEATURES = dict(full_join=False, cross=False, three_way=False, self_join=False, not_in_sub=False, scalar_sub=False,
                null_lit=False, derived=True, cte=False, offset_no_limit=False, mixed_int=False, div=False)


def setup(rl, rng):
    """One big table (several chunks), one small; returns tables."""
    big = Table("t0", [Col("a0", "INT"), Col("b0", "INT"), Col("d0", "VARCHAR")])
    small = Table("t1", [Col("a1", "INT"), Col("b1", "INT")])
    stmts = [big.ddl(), small.ddl(), "create table sink(x int, y int)"]
    n = rng.choice([1500, 2300, 3100])
    rows = [(rng.randint(0, 400), rng.choice([None, 0, 1, 2, 3, 5]), rng.choice(["a", "b", "ab", None])) for _ in range(n)]
    for i in range(0, n, 800):
        part = rows[i:i + 800]
        stmts.append("insert into t0 values " + ", ".join("(" + ", ".join(lit(v) for v in r) + ")" for r in part))
    srows = [(rng.randint(0, 60), rng.choice([None, 1, 2, 3])) for _ in range(40)]
    stmts.append("insert into t1 values " + ", ".join("(" + ", ".join(lit(v) for v in r) + ")" for r in srows))
    stmts.append("insert into sink values (1, 1), (2, 2)")
    for s in stmts:
        r = rl.sql(s)
        if not r["ok"]:
            raise RuntimeError(f"setup failed: {s[:60]}: {r.get('err')}")
    big.rows, small.rows = rows, srows
    return [big, small], stmts


def run_case(args):
    seed, idx, nq = args
    rng = random.Random(f"c15-{seed}-{idx}")
    engine = "disk" if rng.random() < 0.3 else "mem"
    mt = 4 if rng.random() < 0.3 else 0
    # tiny row-set budgets: one INSERT ... SELECT then flushes several row-sets before it commits
    layout = DISK_LAYOUTS[random.Random(f"c15-layout-{seed}-{idx}").choice([0, 2, 3])]
    res = dict(seed=seed, idx=idx, violations=[], injections=0, fired=0, failed=0, benign=0, not_fired=0,
               inconclusive=None, ops=set(), samples=[], distinct=[], dml=0)
    rl = None
    try:
        def fresh():
            x = RL(engine, layout, mt=mt)
            r2 = random.Random(f"c15-{seed}-{idx}-data")
            tabs, _ = setup(x, r2)
            return x, tabs
        rl, tables = fresh()
        g = QueryGen(rng, tables, FEATURES)
        for qi in range(nq):
            kind = rng.choice(["query"] * 4 + ["insert_select", "delete"])
            if kind == "query":
                q = g.query().sql
                target = None
            elif kind == "insert_select":
                q = f"insert into sink select a0, b0 from t0 where a0 < {rng.choice([50, 200, 1000])}"
                target = "sink"
            else:
                q = f"delete from t0 where a0 < {rng.choice([20, 100, 500])}"
                target = "t0"
            # observe run on a scratch copy of the state: DML changes it, so rebuild afterwards
            before = ms(rl.sql(f"select * from {target}")["rows"]) if target else None
            base = rl.sql(q, timeout=120)
            if base.get("dead"):
                res["inconclusive"] = "runner died on fault-free run"
                break
            if not base["ok"]:
                continue   # statement fails on its own: nothing to inject into
            ops = base["raw"].get("ops", {})
            after = ms(rl.sql(f"select * from {target}")["rows"]) if target else None
            base_rows = ms(base["rows"])
            if target:
                rl.close()
                rl, tables = fresh()
                res["dml"] += 1
            plan = []
            for name, chunks in sorted(ops.items()):
                if target and name.split(".", 1)[1].split("\n")[0] in ("insert", "delete"):
                    # The hook sits in the operator's *output* loop: for the DML operator itself that
                    # is after its commit, a point where the real code cannot fail any more.
                    continue
                ks = sorted({0, chunks // 2, max(0, chunks - 1)}) if chunks > 0 else []
                for k in ks:
                    plan.append((name, k, False))
                plan.append((name, chunks, True))
            rng.shuffle(plan)
            for name, k, is_end in plan[:14]:
                for fk in (("error", "panic") if rng.random() < 0.5 else (rng.choice(["error", "panic"]),)):
                    rl.cmd({"op": "fault_arm", "name": name, "idx": k, "is_end": is_end, "kind": fk})
                    r = rl.sql(q, timeout=120)
                    res["injections"] += 1
                    opname = name.split(".", 1)[1].split("\n")[0][:20]
                    res["ops"].add(opname)
                    if r.get("dead"):
                        res["violations"].append(dict(signature=f"process-dies:{opname}:{fk}", what=f"{fk} in {opname}@{k}{'(end)' if is_end else ''} of `{q[:120]}` killed the process: {r['err'][:80]}", q=q))
                        rl.close()
                        rl, tables = fresh()
                        continue
                    fired = r["raw"].get("fault_fired", False)
                    rl.cmd({"op": "fault_disarm"})
                    if not fired:
                        res["not_fired"] += 1
                        if target and r["ok"]:
                            rl.close()
                            rl, tables = fresh()
                        continue
                    res["fired"] += 1
                    res["distinct"].append(h([q, opname, k, is_end, fk]))
                    if not r["ok"]:
                        res["failed"] += 1
                        if target:
                            now = rl.sql(f"select * from {target}")
                            if not now["ok"] or ms(now["rows"]) != before:
                                res["violations"].append(dict(signature=f"failed-dml-changed-table:{kind}:{opname}", what=f"{fk} in {opname}@{k} made `{q[:100]}` fail, but {target} changed ({len(before)} -> {len(now.get('rows', []))} rows)", q=q))
                                rl.close()
                                rl, tables = fresh()
                    else:
                        if target:
                            now = rl.sql(f"select * from {target}")
                            state = ms(now["rows"]) if now["ok"] else None
                            if state == after and ms(r["rows"]) == base_rows:
                                res["benign"] += 1
                            else:
                                res["violations"].append(dict(signature=f"ok-with-partial-effect:{kind}:{opname}:{fk}", what=f"{fk} in {opname}@{k}{'(end)' if is_end else ''}: `{q[:100]}` returned Ok {r['rows'][:2]} (fault-free {base['rows'][:2]}) and {target} has {None if state is None else len(state)} rows (fault-free {len(after)}, before {len(before)})", q=q))
                            rl.close()
                            rl, tables = fresh()
                        elif ms(r["rows"]) == base_rows:
                            res["benign"] += 1
                        else:
                            res["violations"].append(dict(signature=f"ok-with-missing-rows:{opname}:{fk}", what=f"{fk} in {opname}@{k}{'(end)' if is_end else ''} (of {ops.get(name)} chunks): `{q[:160]}` returned Ok with {len(r['rows'])} rows, fault-free run has {len(base_rows)}", q=q))
                    if len(res["samples"]) < 2:
                        res["samples"].append(dict(q=q[:100], operator=opname, chunk=k, end=is_end, fault=fk, outcome="error" if not r["ok"] else "ok"))
            if len(res["violations"]) > 4:
                break
    except Exception as e:
        res["inconclusive"] = f"harness: {type(e).__name__}: {e}"
    finally:
        if rl:
            rl.close()
    res["ops"] = sorted(res["ops"])
    if res["violations"]:
        res["witness"] = dict(seed=seed, idx=idx, nq=nq, engine=engine, mt=mt)
    return res


# ---- natural faults: the statement's own operators fail on a poison row / record at position k
NAT_STATEMENTS = [
    # (kind, sql template, target table or None, which poison makes it fail)
    ("query", "select a + a from nf", None, "overflow"),
    ("query", "select cast(s as int) from nf", None, "cast"),
    ("query", "select sum(a + a) from nf", None, "overflow"),
    ("query", "select count(*) from nf where cast(s as int) >= 0", None, "cast"),
    ("query", "select a + a as c from nf order by c", None, "overflow"),
    ("query", "select s, count(a + a) from nf group by s", None, "overflow"),
    ("query", "select count(*) from nf as x join small as y on x.a + x.a = y.k", None, "overflow"),
    ("query", "select x.id from nf as x where cast(x.s as int) in (select k from small)", None, "cast"),
    ("insert_select", "insert into sink select a + a, id from nf", "sink", "overflow"),
    ("insert_select", "insert into sink select cast(s as int), a from nf", "sink", "cast"),
    ("delete", "delete from nf where a + a > 100", "nf", "overflow"),
    ("delete", "delete from nf where cast(s as int) = 7", "nf", "cast"),
]
# a bad record for COPY FROM: (name, field values for (id, a, s, b))
COPY_POISON = {
    "int-text": lambda i: (str(i), "12x", "7", "\\x00"),
    "int-overflow": lambda i: (str(i), "99999999999", "7", "\\x00"),
    "blob-bad-hex": lambda i: (str(i), "1", "7", "\\xzz"),
    "blob-non-ascii": lambda i: (str(i), "1", "7", "\\xa\u00e9"),
    "too-few-fields": lambda i: (str(i), "1"),
    "too-many-fields": lambda i: (str(i), "1", "7", "\\x00", "9"),
}


def run_natural_case(args):
    """Statements whose own operators fail at a poison row (integer overflow, failing cast) and COPY FROM of a file
    with one bad record, the poison at position k of n rows (first row, around the 1024-row chunk boundary, in a later
    chunk, last row): the statement must fail and the target table must be unchanged; the same statement without the
    poison must succeed (otherwise the case says nothing)."""
    import os
    from common import scratch_dir, rm
    seed, idx = args
    rng = random.Random(f"c15-nat-{seed}-{idx}")
    engine = "disk" if rng.random() < 0.4 else "mem"
    mt = 4 if rng.random() < 0.3 else 0
    layout = DISK_LAYOUTS[rng.choice([0, 2, 3])]
    res = dict(violations=[], cases=0, failed=0, samples=[], distinct=[], inconclusive=None, kinds=set())
    n = rng.choice([1200, 2300, 3100])
    k = rng.choice([0, 1, 1022, 1023, 1024, 1025, n // 2, n - 2, n - 1])
    k = min(k, n - 1)
    d = scratch_dir("c15nat")
    rl = None
    try:
        def fresh(poison):
            x = RL(engine, layout, mt=mt)
            stmts = ["create table nf(id int, a int, s varchar)", "create table small(k int)", "create table sink(x int, y int)",
                     "create table cp(id int, a int, s varchar, b blob)",
                     "insert into small values " + ", ".join(f"({v})" for v in range(0, 40, 3)),
                     "insert into sink values (1, 1), (2, 2)", "insert into cp values (-1, 0, 'keep', '\\x01')"]
            rows = [(i, (i * 7) % 400, str((i * 3) % 50)) for i in range(n)]
            if poison == "overflow":
                rows[k] = (k, 2000000000, "5")
            elif poison == "cast":
                rows[k] = (k, 5, "4x")
            for i in range(0, n, 700):
                stmts.append("insert into nf values " + ", ".join(f"({a}, {b}, '{c}')" for a, b, c in rows[i:i + 700]))
            for st in stmts:
                r = x.sql(st)
                if not r["ok"]:
                    raise RuntimeError(f"setup failed: {st[:60]}: {r.get('err')}")
            return x
        which = rng.random()
        if which < 0.6:
            kind, q, target, poison = rng.choice(NAT_STATEMENTS)
            label = f"{kind}:{poison}"
            # control: without the poison the statement succeeds
            rl = fresh(None)
            c = rl.sql(q, timeout=120)
            rl.close(); rl = None
            if not c["ok"]:
                res["inconclusive"] = f"control statement fails: {q[:40]}"
                return res
            rl = fresh(poison)
        else:
            pname = rng.choice(sorted(COPY_POISON))
            kind, target, label = "copy_from", "cp", f"copy_from:{pname}"
            f = os.path.join(d, "in.csv")
            recs = [(str(i), str(i % 300), str(i % 50), "\\x%02x" % (i % 256)) for i in range(n)]
            with open(os.path.join(d, "good.csv"), "w", encoding="utf-8") as fh:
                fh.write("".join(",".join(r) + "\n" for r in recs))
            recs[k] = COPY_POISON[pname](k)
            with open(f, "w", encoding="utf-8") as fh:
                fh.write("".join(",".join(r) + "\n" for r in recs))
            q = f"copy cp from '{f}' (FORMAT CSV)"
            rl = fresh(None)
            c = rl.sql(f"copy cp from '{os.path.join(d, 'good.csv')}' (FORMAT CSV)", timeout=120)
            cnt = rl.sql("select count(*) from cp")
            rl.close(); rl = None
            if not c["ok"] or not cnt["ok"] or int(cnt["rows"][0][0]) != n + 1:
                res["inconclusive"] = "control COPY FROM of the good file fails"
                return res
            rl = fresh(None)
        before = rl.sql(f"select * from {target}") if target else None
        r = rl.sql(q, timeout=120)
        res["cases"] += 1
        res["kinds"].add(label)
        res["distinct"].append(h([q.replace(d, ""), n, k, engine, mt]))
        where = f"poison at row {k} of {n}, {engine}{' mt' if mt else ''}"
        if r.get("dead"):
            res["violations"].append(dict(signature=f"natural:process-dies:{label}", what=f"`{q.replace(d, '')[:100]}` ({where}) killed the process: {r['err'][:80]}"))
            return res
        if r["ok"]:
            res["violations"].append(dict(signature=f"natural:ok-despite-failing-row:{label}", what=f"`{q.replace(d, '')[:100]}` ({where}) returned Ok {str(r['rows'][:2])[:80]} ({len(r['rows'])} rows) although one of its rows cannot be evaluated / read"))
        else:
            res["failed"] += 1
        if target:
            now = rl.sql(f"select * from {target}")
            if not now["ok"] or not before["ok"] or ms(now["rows"]) != ms(before["rows"]):
                res["violations"].append(dict(signature=f"natural:failed-dml-changed-table:{label}", what=f"`{q.replace(d, '')[:100]}` ({where}) {'failed' if not r['ok'] else 'returned Ok'} and {target} changed: {len(before.get('rows', []))} -> {len(now.get('rows', []))} rows"))
        if len(res["samples"]) < 1:
            res["samples"].append(dict(q=q.replace(d, "")[:100], natural_fault=label, row=k, of=n, engine=engine, outcome="error" if not r["ok"] else "ok"))
        # a sink that fails: COPY TO a device that rejects every write (ENOSPC). Whether the output is smaller than the writer's
        # buffer (the only write is the final flush) or much larger, the statement must fail. (A stream of its own.)
        import stat
        if os.path.exists("/dev/full") and stat.S_ISCHR(os.stat("/dev/full").st_mode) and not r.get("dead"):
            rng2 = random.Random(f"c15-nat2-{seed}-{idx}")
            src = rng2.choice(["small", "sink", "nf", "(select k from small where k > 5)", "(select id, a from nf where id < 3)", "cp"])
            q2 = f"copy {src} to '/dev/full'" + rng2.choice(["", " (FORMAT CSV)", " (FORMAT CSV, DELIMITER '|')"])
            r2 = rl.sql(q2, timeout=120)
            lab2 = "copy_to:full-device:" + ("large-output" if src == "nf" else "output-below-the-writer-buffer")
            res["cases"] += 1
            res["kinds"].add(lab2)
            res["distinct"].append(h([q2, n, engine, mt]))
            if r2.get("dead"):
                res["violations"].append(dict(signature=f"natural:process-dies:{lab2}", what=f"`{q2}` killed the process: {r2['err'][:80]}"))
            elif r2["ok"]:
                res["violations"].append(dict(signature=f"natural:ok-despite-failing-sink:{lab2}", what=f"`{q2}` ({engine}{' mt' if mt else ''}) returned Ok {str(r2['rows'][:2])[:60]} although every write to the device fails"))
            else:
                res["failed"] += 1
    except Exception as e:
        res["inconclusive"] = f"harness: {type(e).__name__}: {e}"
    finally:
        if rl:
            rl.close()
        rm(d)
    res["kinds"] = sorted(res["kinds"])
    if res["violations"]:
        res["witness"] = dict(natural=True, seed=seed, idx=idx)
    return res


def sentinel(w):
    if w.get("natural"):
        res = run_natural_case((w["seed"], w["idx"]))
        return [(v["signature"], v["what"]) for v in res["violations"]]
    res = run_case((w["seed"], w["idx"], w["nq"]))
    return [(v["signature"], v["what"]) for v in res["violations"]]


def run(tier, seed):
    rep = Report("C15", tier, seed, "fault_enumeration")
    n, nq = (32, 4) if tier == "quick" else (1500, 6)
    rep.rule = ("statements (generated queries with joins/aggregates/order/limit/subqueries, INSERT..SELECT, DELETE) over a "
                "1500-3100 row table (several chunks) and a small one, memory and disk engines, current- and multi-thread runtime; "
                "faults {error,panic} injected at (operator, chunk k in {first, middle, last}) and at end-of-stream; distinct "
                "non-trivial = distinct (statement, operator, k, fault kind) whose fault actually fired; natural-fault leg: statements "
                "whose own operators fail on a poison row (i32 overflow, failing cast) and COPY FROM of a file with one bad record "
                "(bad integer, bad / non-ASCII blob text, wrong field count) at row k of 1200-3100 (first, around the 1024-row chunk "
                "boundary, later chunk, last), distinct = distinct (statement, n, k, engine, runtime)")
    tot = dict(inj=0, fired=0, failed=0, benign=0, not_fired=0, dml=0)
    ops = set()
    for res in parallel_map(run_case, [(seed, i, nq) for i in range(n)]):
        rep.evaluations += res["injections"]
        for k, kk in (("inj", "injections"), ("fired", "fired"), ("failed", "failed"), ("benign", "benign"), ("not_fired", "not_fired"), ("dml", "dml")):
            tot[k] += res[kk]
        ops.update(res["ops"])
        rep.distinct.update(res["distinct"])
        for s in res["samples"]:
            rep.sample(s, limit=5)
        if res["inconclusive"]:
            rep.inc(res["inconclusive"][:60])
        for v in res["violations"]:
            rep.add_violation(Violation(v["signature"], v["what"], res.get("witness")))
    nn = 192 if tier == "quick" else 6000
    nat = dict(cases=0, failed=0)
    nat_kinds = set()
    for res in parallel_map(run_natural_case, [(seed, i) for i in range(nn)]):
        rep.evaluations += res["cases"]
        nat["cases"] += res["cases"]
        nat["failed"] += res["failed"]
        nat_kinds.update(res["kinds"])
        rep.distinct.update(res["distinct"])
        for s in res["samples"]:
            rep.sample(s, limit=8)
        if res["inconclusive"]:
            rep.inc(res["inconclusive"][:60])
        for v in res["violations"]:
            rep.add_violation(Violation(v["signature"], v["what"], res.get("witness")))
    rep.coverage.update(natural_fault_cases=nat["cases"], natural_fault_statement_failed=nat["failed"], natural_fault_kinds=sorted(nat_kinds))
    rep.floor("natural-fault cases", nat["cases"], nn // 2)
    rep.floor("natural-fault kinds", len(nat_kinds), 8)
    run_sentinels(rep, sentinel)
    rep.coverage.update(faults_fired=tot["fired"], statement_failed=tot["failed"], ok_with_identical_result=tot["benign"],
                        armed_but_not_reached=tot["not_fired"], operators_injected=sorted(ops), dml_statements=tot["dml"])
    rep.floor("faults that fired", tot["fired"], n * 8)
    rep.floor("distinct operators injected", len(ops), 8)
    rep.assumptions = ["faults are not injected at the output of the INSERT/DELETE operator itself (post-commit; no real failure can occur there)",
                       "a fault that fired while the statement still returned exactly the fault-free result (consumer already satisfied, e.g. below a LIMIT) is counted as benign"]
    return rep.finish()


def replay(path):
    import json
    w = json.load(open(path))["witness"]
    out = sentinel(w)
    for s in out:
        print("VIOLATION-REPRO", s)
    return 1 if out else 0
