"""C06 - column encodings round-trip every value exactly.

The Rust driver `rlv lab col` builds one-column row-sets through the real builders (all column
types x plain/rle/dict x nullable x block sizes x value patterns), opens them through the real
DiskRowset::open and reads them back through the real column iterator (random start row, batch
sizes bounded by fetch_hint, skips) and through the real row-set iterator with delete vectors.
The oracle is the generated input itself (floats compared by bits)."""
import json
import subprocess

from common import Report, Violation, RLV, NCPU, load_known, VERIF
import os


def shard(args):
    seed, n, sh = args
    try:
        p = subprocess.run([RLV, "lab", "col", str(seed), str(n), str(sh)], stdout=subprocess.PIPE,
                           stderr=subprocess.PIPE, text=True, timeout=1800)
    except subprocess.TimeoutExpired:
        return dict(error="watchdog")
    if p.returncode not in (0, 1):
        return dict(error=f"driver rc={p.returncode}: {p.stderr[-200:]}")
    try:
        return json.loads(p.stdout.strip().splitlines()[-1])
    except Exception as e:
        return dict(error=f"bad output: {e}")


def run(tier, seed):
    from concurrent.futures import ThreadPoolExecutor
    rep = Report("C06", tier, seed, "exploration")
    per, shards = (300, 16) if tier == "quick" else (12000, 16)
    rep.rule = ("random (type, nullable, encoding, block size, checksum, length 0..3000, cardinality, value pattern, chunking) "
                "cases; per case 4 column-iterator scripts (start 0 / last / random; batches <= fetch_hint; skips) and 2 "
                "row-set-iterator scans with delete vectors; distinct non-trivial = cases whose column spans more than one block")
    combos = {}
    tot = dict(cases=0, multi=0, blocks=0, ops=0)
    with ThreadPoolExecutor(max_workers=NCPU) as ex:
        for r in ex.map(shard, [(seed, per, s) for s in range(shards)]):
            if "error" in r:
                rep.inc(r["error"][:60])
                continue
            tot["cases"] += r["cases"]
            tot["multi"] += r["multi_block_cases"]
            tot["blocks"] += r["blocks"]
            tot["ops"] += r["iterator_ops"]
            for k, v in r["combos"].items():
                combos[k] = combos.get(k, 0) + v
            for s in r["samples"]:
                rep.sample(s, limit=4)
            for v in r["violations"]:
                rep.add_violation(Violation(v["signature"], v["what"], dict(case=v["case"])))
    # sentinels of open findings: stored cases
    for k in load_known().get("open", []):
        if k["property"] == "C06" and k.get("sentinel_file"):
            case = json.load(open(os.path.join(VERIF, k["sentinel_file"])))["witness"]["case"]
            p = subprocess.run([RLV, "lab", "col-replay", json.dumps(case)], stdout=subprocess.PIPE, text=True)
            if p.returncode == 1:
                what = p.stdout.strip().splitlines()[-1]
                sig = what.split()[1].rstrip(":") + f":{case['ty']}/{case['encode']}"
                rep.add_violation(Violation(sig, what, dict(case=case)))
    rep.evaluations = tot["cases"]
    rep.distinct = tot["multi"]
    rep.coverage.update(blocks_built=tot["blocks"], iterator_operations=tot["ops"], cases_per_type_encoding_nullability=combos,
                        combos_covered=len(combos))
    rep.floor("type/encoding/nullability combinations exercised", len(combos), 60)
    rep.floor("multi-block columns", tot["multi"], per * shards // 10)
    rep.assumptions = ["fixed-width CHAR blocks are not reachable from SQL (column builders always pass char_width=None) and are not driven",
                       "scripts 0-1 of a case stay within fetch_hint (the contract RowSetIterator follows); later scripts also request batches that span several blocks, which ConcreteColumnIterator supports by design"]
    if tier == "thorough" and not os.environ.get("VERIF_OVERLAY"):
        import sanitize
        sanitize.overlay(rep, "asan", timeout=5400)
        sanitize.miri(rep, [["col", seed, 5, sh, 70] for sh in range(16)], timeout=3000)
    return rep.finish()


def replay(path):
    w = json.load(open(path))["witness"]
    p = subprocess.run([RLV, "lab", "col-replay", json.dumps(w["case"])])
    return p.returncode
