"""C04 - a crash at any instant leaves a recoverable, atomic, durable database.

Decided for process death. One real execution of a workload runs with the crash-point hook
armed: at every persistence step (directory create, each column/index file write and fsync, DV
write, manifest append before/written/synced, manifest tmp write and rename, boot vacuum and
background vacuum unlink) the handler copies the database directory. Every copy - plus torn
variants of the file or manifest record that was in flight - is opened by a fresh process and
must equal the model of the acknowledged statements or of acknowledged + interrupted statement;
the interrupted statement is retried, further statements must succeed, and a crash during that
recovery (same hook, armed on the recovering open) must recover to the same state."""
from sqlcase import is_conflict_text
import os
import random
import re
import shutil

from common import Report, Violation, parallel_map, h, run_sentinels, scratch_dir, rm, Runner, RunnerDied, RunnerTimeout
from gen import Col, Table, lit, gen_rows
from model import ModelTable, gen_pred, py_row
from sqlcase import RL, ms, norm_rows
from common import rows_of

LAYOUTS = [
    dict(block=64, rowset=300, crc=True, first_key=True),
    dict(block=256, rowset=4000, crc=False, first_key=True),
]
TYPES = ("INT", "BIGINT", "VARCHAR", "BOOLEAN")


def gen_workload(rng, wide=False):
    """[(kind, sql, apply_fn)] where apply_fn mutates a model dict name->ModelTable"""
    steps = []
    tables = {}
    # a third of the workloads name tables and columns with multi-byte characters: the manifest records hold the names, and a
    # torn write can end inside a character
    # (drawn from a stream of its own by the caller, so that the statements of a workload do not depend on it)
    names = ["tä", "t数"] if wide else ["ta", "tb"]
    uid = [0]

    def mk_table(name):
        cols = [Col("id", "INT", nullable=False, pk=rng.random() < 0.5)]
        for i in range(rng.randint(1, 2)):
            cols.append(Col(("pé", "q€")[i] if wide else "pq"[i], rng.choice(TYPES)))
        return Table(name, cols)

    n = rng.randint(6, 14)
    for _ in range(n):
        k = rng.choice(["create"] + ["insert"] * 4 + ["delete"] * 3 + ["drop", "tick", "tick", "reopen"])
        if not tables and k in ("insert", "delete", "drop"):
            k = "create"
        if k == "create":
            free = [x for x in names if x not in tables]
            if not free:
                continue
            t = mk_table(free[0])
            tables[t.name] = t
            steps.append(("create", t.ddl(), ("create", t)))
        elif k == "insert":
            t = tables[rng.choice(sorted(tables))]
            rows = []
            for _ in range(rng.choice([1, 2, 6, 20])):
                row = [uid[0]] + [None if rng.random() < 0.15 else
                                  (rng.randint(-3, 9) if c.typ in ("INT", "BIGINT") else
                                   (rng.choice(["a", "b", "xyz"]) if c.typ == "VARCHAR" else rng.random() < 0.5))
                                  for c in t.cols[1:]]
                uid[0] += 1
                rows.append(tuple(row))
            vals = ", ".join("(" + ", ".join(lit(v, c.typ) for v, c in zip(x, t.cols)) + ")" for x in rows)
            steps.append(("insert", f"insert into {t.name} values {vals}", ("insert", t.name, rows)))
        elif k == "delete":
            t = tables[rng.choice(sorted(tables))]
            p = gen_pred(rng, t)
            steps.append(("delete", f"delete from {t.name} where {p.sql}", ("delete", t.name, p)))
        elif k == "drop":
            name = rng.choice(sorted(tables))
            del tables[name]
            steps.append(("drop", f"drop table {name}", ("drop", name)))
        elif k == "tick":
            steps.append(("tick", "<compaction+vacuum pass>", None))
        elif k == "reopen":
            steps.append(("reopen", "<shutdown+reopen>", None))
    return steps


def apply(model, eff):
    if eff is None:
        return
    if eff[0] == "create":
        model[eff[1].name] = ModelTable(eff[1])
    elif eff[0] == "insert":
        model[eff[1]].insert(eff[2])
    elif eff[0] == "delete":
        model[eff[1]].delete(eff[2])
    elif eff[0] == "drop":
        del model[eff[1]]


def snapshot_model(model):
    return {n: (mt.table, ms([py_row(r, mt.table) for r in mt.rows])) for n, mt in model.items()}


def read_state(rl):
    """-> {table: multiset} or (None, reason)"""
    r = rl.sql("select * from pg_catalog.pg_tables")
    if not r["ok"]:
        return None, f"pg_tables: {r.get('err')}"
    names = sorted(x[3] for x in r["rows"] if x[1] == "postgres")
    out = {}
    for n in names:
        q = rl.sql(f"select * from {n}")
        if not q["ok"]:
            return None, f"select * from {n}: {q.get('kind')} {q.get('err', '')[:80]} {q.get('panics')}"
        out[n] = ms(q["rows"])
    return out, None


def same_state(state, snap):
    return sorted(state) == sorted(snap) and all(state[n] == snap[n][1] for n in snap)


def recover_and_judge(dirpath, layout, acked, both, inflight_sql, deep, tag):
    """Open a copy of `dirpath`; returns (violations, info)."""
    v = []
    info = dict(matched=None, recrash_points=0, second_open=0)
    work = scratch_dir("rec")
    snaps2 = scratch_dir("rec2")
    rl = None
    try:
        shutil.copytree(dirpath, os.path.join(work, "db"))
        r = Runner()
        try:
            if deep:
                r.cmd({"op": "crash_arm", "src": os.path.join(work, "db"), "dst": snaps2})
            o = dict(layout)
            o.update({"op": "open", "engine": "disk", "path": os.path.join(work, "db")})
            try:
                resp = r.cmd(o, timeout=60)
            except RunnerDied as e:
                v.append((f"recovery-aborts:{tag}", f"open of the crash state killed the process: {e.stderr_tail[-120:]}"))
                return v, info
            except RunnerTimeout:
                v.append((f"recovery-hangs:{tag}", "open of the crash state did not return within 60 s (watchdog)"))
                return v, info
            recrash = resp.get("crash_points", [])
            r.cmd({"op": "crash_disarm"})
            if not resp.get("ok"):
                v.append((f"recovery-fails:{tag}", f"open of the crash state failed: {resp.get('err')} {resp.get('panics')}"))
                return v, info

            class W:   # minimal RL-like wrapper
                def sql(self, s):
                    try:
                        x = r.sql(s)
                    except (RunnerDied, RunnerTimeout) as e:
                        return dict(ok=False, kind="abort", err=str(e), panics=[], dead=True)
                    out = dict(ok=x["ok"], panics=x.get("panics", []))
                    if x["ok"]:
                        out["rows"] = norm_rows(rows_of(x)) if x["stmts"] else []
                    else:
                        out["kind"], out["err"] = x.get("kind"), x.get("err", "")
                    return out
            w = W()
            state, why = read_state(w)
            if state is None:
                v.append((f"recovered-unreadable:{tag}", why))
                return v, info
            if same_state(state, acked):
                info["matched"] = "acked"
            elif both is not None and same_state(state, both):
                info["matched"] = "acked+inflight"
            else:
                detail = []
                for n in sorted(set(state) | set(acked)):
                    a = acked.get(n, (None, None))[1]
                    b = both.get(n, (None, None))[1] if both else None
                    s = state.get(n)
                    if s != a and s != b:
                        detail.append(f"{n}: {None if s is None else len(s)} rows; acked {None if a is None else len(a)}, with interrupted {None if b is None else len(b)}")
                v.append((f"not-atomic-or-not-durable:{tag}", "recovered state equals neither model: " + "; ".join(detail)[:300]))
                return v, info
            # the database accepts new statements: retry the interrupted one when it did not take effect
            if inflight_sql and info["matched"] == "acked" and both is not None:
                x = w.sql(inflight_sql)
                for _ in range(4):
                    if x["ok"] or not is_conflict_text(x.get("err")):
                        break
                    x = w.sql(inflight_sql)   # conflict with the compaction pass that runs right after open
                if not x["ok"]:
                    v.append((f"retry-of-interrupted-statement-fails:{tag}", f"{inflight_sql[:80]}: {x.get('kind')} {x.get('err', '')[:120]} {x.get('panics')}"))
                    return v, info
                st2, why = read_state(w)
                if st2 is None or not same_state(st2, both):
                    diff = []
                    if st2 is not None:
                        for n in sorted(set(st2) | set(both)):
                            a, b = st2.get(n), both.get(n, (None, None))[1]
                            if a != b:
                                diff.append(f"{n}: has {None if a is None else len(a)} rows, expected {None if b is None else len(b)}; "
                                            f"unexpected {[x for x in (a or []) if x not in (b or [])][:3]} missing {[x for x in (b or []) if x not in (a or [])][:3]}")
                    v.append((f"retry-of-interrupted-statement-wrong:{tag}", f"after retrying {inflight_sql[:60]} the state is not acked+statement ({why}) {diff}"))
                    return v, info
            x = w.sql("create table zz_probe(a int)")
            y = w.sql("insert into zz_probe values (1),(2)")
            z = w.sql("select * from zz_probe")
            if not (x["ok"] and y["ok"] and z["ok"] and ms(z["rows"]) == [(1,), (2,)]):
                v.append((f"post-recovery-statement-fails:{tag}", f"create/insert/select after recovery: {[(q.get('err'), q.get('panics')) for q in (x, y, z) if not q['ok']]}"))
                return v, info
            # "recovering again gives the same state": what the recovery left on disk (the torn tail it
            # skipped, the files it removed, the manifest it rewrote) plus the statements made since must
            # open again, with the same contents
            st_before, why = read_state(w)
            try:
                ro = r.cmd({"op": "reopen"}, timeout=60)
            except (RunnerDied, RunnerTimeout) as e:
                ro = {"ok": False, "err": f"process died / watchdog: {e}"}
            if not ro.get("ok"):
                v.append((f"second-open-after-recovery-fails:{tag}", f"the recovered database took new statements, was shut down, and does not open again: {ro.get('err')} {ro.get('panics')}"))
                return v, info
            st_after, why2 = read_state(w)
            if st_before is None or st_after is None or st_before != st_after:
                v.append((f"second-open-after-recovery-differs:{tag}", f"state after recovery + statements {None if st_before is None else {n: len(x) for n, x in st_before.items()}} ({why}); after the next open {None if st_after is None else {n: len(x) for n, x in st_after.items()}} ({why2})"))
                return v, info
            info["second_open"] = 1
            # a crash during the recovery itself
            if deep and recrash:
                info["recrash_points"] = len(recrash)
                want = acked if info["matched"] == "acked" else both
                for cp in recrash:
                    if not cp.get("copied"):
                        continue
                    vv, _ = recover_and_judge(cp["snap"], layout, want, None, None, False, f"recovery:{cp['step']}")
                    for sig, what in vv:
                        v.append((sig, f"crash during recovery at {cp['step']}: {what}"))
                    if vv:
                        break
        finally:
            r.close()
    finally:
        rm(work)
        rm(snaps2)
    return v, info


def torn_variants(snapdir, cp, prev_manifest_len, exhaustive, rng):
    """yield (label, directory) of torn versions of the write that had just completed at cp"""
    step = cp["step"]
    if step == "manifest_append.written":
        f = os.path.join(snapdir, "manifest.json")
        if not os.path.exists(f):
            # (the compacted manifest is written to manifest.tmp.json)
            f = os.path.join(snapdir, "manifest.tmp.json")
        lo = prev_manifest_len
    elif step in ("colfile.written", "dv.written"):
        f = os.path.join(snapdir, cp["path"])
        lo = 0
    else:
        return
    if not os.path.exists(f):
        return
    size = os.path.getsize(f)
    if step == "manifest_append.written" and os.path.basename(f) == "manifest.tmp.json":
        lo = 0
    if lo is None or size <= lo:
        return
    if step == "manifest_append.written":
        # self-check of the harness: the bytes from `lo` on are the record in flight (every append starts with `"Begin"`);
        # if they are not, `lo` is not the start of that record and a cut there would drop acknowledged records
        with open(f, "rb") as fh:
            fh.seek(lo)
            if fh.read(7) != b'"Begin"':
                raise RuntimeError(f"torn-variant base {lo} of {f} is not the start of a manifest record")
    if exhaustive and step != "colfile.written":
        lens = list(range(lo, size))
    else:
        lens = {lo, lo + 1, (lo + size) // 2, size - 1, rng.randrange(lo, size)}
        if step == "manifest_append.written":
            # structural cuts of a manifest record: inside a multi-byte character of a name (the file is text), and right after
            # each `"End"` / before each `"Begin"` (between two transactions of one statement)
            data = open(f, "rb").read()
            inside = [i for i in range(max(lo, 1), size) if data[i] & 0xC0 == 0x80]
            if inside:
                lens |= {inside[0], rng.choice(inside)}
            ends = [m.end() for m in re.finditer(rb'"End"', data[lo:])]
            lens |= {lo + e for e in ends[:-1]}
        lens = sorted(x for x in lens if lo <= x < size)
    for ln in lens:
        d = scratch_dir("torn")
        shutil.copytree(snapdir, os.path.join(d, "db"))
        rel = os.path.relpath(f, snapdir)
        with open(os.path.join(d, "db", rel), "r+b") as fh:
            fh.truncate(ln)
        yield f"{step}:torn", os.path.join(d, "db"), d


def run_workload(args):
    seed, idx, exhaustive = args
    rng = random.Random(f"c04-{seed}-{idx}")
    layout = rng.choice(LAYOUTS)
    steps = gen_workload(rng, random.Random(f"c04w-{seed}-{idx}").random() < 0.33)
    res = dict(seed=seed, idx=idx, violations=[], states=0, by_step={}, matched={}, recrash=0, inconclusive=None,
               sample=[s[1][:80] for s in steps[:8]], distinct=[])
    base = scratch_dir("c04")
    snaps = os.path.join(base, "snaps")
    os.makedirs(snaps)
    dbdir = os.path.join(base, "live")
    os.makedirs(dbdir)
    rl = None
    try:
        r = Runner()
        r.cmd({"op": "crash_arm", "src": os.path.join(dbdir, "db"), "dst": snaps})
        o = dict(layout)
        o.update({"op": "open", "engine": "disk", "path": os.path.join(dbdir, "db")})
        resp = r.cmd(o)
        if not resp.get("ok"):
            res["inconclusive"] = "initial open failed"
            return res
        model = {}
        acked_snap = snapshot_model(model)
        pending = [("<initial open>", None, resp.get("crash_points", []), acked_snap, None)]
        for kind, sql, eff in steps:
            if kind == "tick":
                resp = r.cmd({"op": "tick", "secs": 1})
            elif kind == "reopen":
                resp = r.cmd({"op": "reopen"})
                if not resp.get("ok"):
                    res["violations"].append(("clean-reopen-fails", f"{resp.get('err')} {resp.get('panics')}"))
                    break
            else:
                resp = r.sql(sql)
            cps = resp.get("crash_points", [])
            ok = resp.get("ok")
            before = acked_snap
            after = None
            if kind in ("create", "insert", "delete", "drop"):
                if ok:
                    apply(model, eff)
                    after = snapshot_model(model)
                else:
                    # a failing statement has no acknowledged effect; its crash points must show `before`
                    after = None
            pending.append((sql, kind, cps, before, after))
            if after is not None:
                acked_snap = after
        r.close()
        # judge every crash state
        prev_manifest_len = 0
        for sql, kind, cps, before, after in pending:
            inflight = sql if kind in ("create", "insert", "delete", "drop") else None
            for cp in cps:
                step = cp["step"]
                res["vanished"] = res.get("vanished", 0) + cp.get("vanished", 0)
                if step == "manifest_append.before":
                    # start of the record in flight at the next `.written`: the hook reports the length of the live manifest
                    # at this step whether or not its directory copy succeeded (None: no manifest.json -> no torn variants)
                    prev_manifest_len = cp.get("manifest_len")
                if not cp.get("copied"):
                    res["uncopied"] = res.get("uncopied", 0) + 1
                    continue
                snapdir = cp["snap"]
                res["by_step"][step] = res["by_step"].get(step, 0) + 1
                deep = rng.random() < (0.5 if exhaustive else 0.15)
                v, info = recover_and_judge(snapdir, layout, before, after, inflight, deep, step)
                res["states"] += 1
                res["recrash"] += info["recrash_points"]
                res["second_open"] = res.get("second_open", 0) + info.get("second_open", 0)
                res["distinct"].append(h([step, kind, info["matched"]]))
                if info["matched"]:
                    res["matched"][info["matched"]] = res["matched"].get(info["matched"], 0) + 1
                for sig, what in v:
                    res["violations"].append((sig, f"workload {idx}, statement `{sql[:70]}`, crash at {step} ({cp['path']}): {what}"))
                for label, tdir, troot in torn_variants(snapdir, cp, prev_manifest_len, exhaustive, rng):
                    try:
                        v, info = recover_and_judge(tdir, layout, before, after, inflight, False, label)
                        res["states"] += 1
                        res["second_open"] = res.get("second_open", 0) + info.get("second_open", 0)
                        res["by_step"][label] = res["by_step"].get(label, 0) + 1
                        res["distinct"].append(h([label, kind, info["matched"]]))
                        for sig, what in v:
                            res["violations"].append((sig, f"workload {idx}, statement `{sql[:70]}`, torn write at {step} ({cp['path']}): {what}"))
                    finally:
                        rm(troot)
                if len(res["violations"]) > 5:
                    break
            if len(res["violations"]) > 5:
                break
    except Exception as e:
        import traceback
        res["inconclusive"] = f"harness: {type(e).__name__}: {e} {traceback.format_exc()[-200:]}"
    finally:
        rm(base)
    return res


def sentinel(w):
    res = run_workload((w["seed"], w["idx"], w.get("exhaustive", False)))
    return res["violations"]


def run(tier, seed):
    rep = Report("C04", tier, seed, "fault_enumeration")
    n, exhaustive = (24, False) if tier == "quick" else (600, True)
    rep.rule = ("workloads of 6-14 statements (create/insert/delete/drop, compaction+vacuum passes, clean reopen) on 2 layouts; "
                "every persistence step of one real execution is a crash state, plus torn variants (quick: 5 prefixes; thorough: "
                "every byte prefix of manifest records and DV files) and crashes during the recovery of a sample of states; every recovered state takes new statements and is then shut down and opened a second time; "
                "distinct non-trivial = distinct (step, statement kind, which model matched)")
    by_step, matched = {}, {}
    recrash = second_open = uncopied = vanished = 0
    for res in parallel_map(run_workload, [(seed, i, exhaustive) for i in range(n)]):
        rep.evaluations += res["states"]
        recrash += res["recrash"]
        second_open += res.get("second_open", 0)
        uncopied += res.get("uncopied", 0)
        vanished += res.get("vanished", 0)
        rep.distinct.update(res["distinct"])
        for k, v in res["by_step"].items():
            by_step[k] = by_step.get(k, 0) + v
        for k, v in res["matched"].items():
            matched[k] = matched.get(k, 0) + v
        if res["inconclusive"]:
            rep.inc(res["inconclusive"][:80])
        rep.sample(res["sample"], limit=3)
        for sig, what in res["violations"]:
            rep.add_violation(Violation(sig, what, dict(seed=res["seed"], idx=res["idx"], exhaustive=exhaustive)))
    run_sentinels(rep, sentinel)
    rep.coverage.update(crash_states_by_step=by_step, recovered_state_matched=matched, crashes_during_recovery=recrash,
                        second_opens_after_recovery_and_new_statements=second_open,
                        crash_points_whose_directory_copy_failed=uncopied,
                        entries_unlinked_by_the_program_during_a_copy=vanished)
    rep.floor("second opens after recovery", second_open, n * 15)
    rep.floor("crash states recovered", rep.evaluations, n * 20)
    rep.floor("distinct persistence steps hit", len([k for k in by_step if not k.endswith(":torn")]), 12)
    rep.assumptions = ["process death only: everything written before the crash point is in the copied directory (no loss of un-fsynced page cache)",
                       "the directory copy is taken synchronously inside the hook, on the (only) runtime thread; a file operation already "
                       "handed to the blocking pool (a vacuum's remove_dir_all, another task's write) may complete during the copy, so "
                       "an entry that vanishes while it is copied is skipped - each such state is a crash state of that concurrent operation"]
    if tier == "thorough" and not os.environ.get("VERIF_OVERLAY"):
        import sanitize
        sanitize.overlay(rep, "asan", timeout=5400)
    return rep.finish()


def replay(path):
    import json
    w = json.load(open(path))["witness"]
    out = sentinel(w)
    for s in out:
        print("VIOLATION-REPRO", s)
    return 1 if out else 0
