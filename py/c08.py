"""C08 - readers see a stable snapshot and their files are never removed.

Storage-level readers (real Table::read / scan / next_batch, stepping slowly) share one on-disk
database with SQL writers (insert / delete / drop table) and with the engine's own compactor
and vacuum tasks, on a current-thread runtime with a paused clock. The hook handler perturbs the
schedule at the instrumented yield points (seeded yields and virtual sleeps; directed gates in
the thorough tier). Oracles: (1) boundary oracle - the rows a reader returns must equal the
model state for some per-session prefix of writer statements admissible at its start (acked
before the call => visible; invoked after the snapshot was taken => invisible; each statement
atomic); (2) no reader error or panic; (3) online trace specification over version-manager
events: a row-set is never selected for vacuum while a pinned epoch contains it."""
import os
import itertools
import random

from common import Report, Violation, parallel_map, h, run_sentinels, panic_site
from schedlib import run_scenario, stmt_rows, trace_spec, interleaving_signature, BG
from sqlcase import ms

POINTS = ["txn.start", "txn.after_pin", "txn.commit_begin", "txn.before_commit", "commit.before_append",
          "commit.before_publish", "compactor.pass_begin", "compactor.before_lock", "compactor.after_read",
          "compactor.before_commit", "vacuum.before_unlink"]


def gen_scenario(rng, seed, idx, directed=None):
    ntab = rng.choice([1, 2])
    pk = rng.random() < 0.4
    setup = []
    rows = {}
    uid = [0]
    for t in range(ntab):
        name = f"t{t}"
        setup.append(f"create table {name}(uid int {'primary key' if pk else 'not null'}, k int)")
        rows[name] = {}
        for _ in range(rng.randint(1, 4)):
            part = []
            for _ in range(rng.choice([1, 3, 6, 12])):
                part.append((uid[0], rng.randint(0, 5)))
                uid[0] += 1
            setup.append(f"insert into {name} values " + ", ".join(f"({u}, {k})" for u, k in part))
            for u, k in part:
                rows[name][u] = k
    actors = []
    writers = []
    for w in range(rng.choice([1, 2])):
        stmts, effects = [], []
        own = {n: [] for n in rows}
        mine = {n: [u for u in rows[n] if u % 2 == w] for n in rows}   # disjoint uid ownership between writers
        for _ in range(rng.randint(2, 6)):
            name = rng.choice(sorted(rows))
            if rng.random() < 0.55:
                part = []
                for _ in range(rng.choice([1, 2, 5, 10])):
                    part.append((uid[0], rng.randint(0, 5)))
                    uid[0] += 1
                stmts.append(f"insert into {name} values " + ", ".join(f"({u}, {k})" for u, k in part))
                effects.append(("ins", name, part))
                own[name].extend(u for u, _ in part)
            else:
                pool = mine[name] + own[name]
                if not pool:
                    continue
                dels = rng.sample(pool, min(len(pool), rng.choice([1, 2, 4])))
                for u in dels:
                    if u in mine[name]:
                        mine[name].remove(u)
                    else:
                        own[name].remove(u)
                stmts.append(f"delete from {name} where " + " or ".join(f"uid = {u}" for u in dels))
                effects.append(("del", name, dels))
            if rng.random() < 0.3:
                stmts.append(f"<sleep {rng.choice([1, 3, 400, 1001])}>")
        if ntab == 2 and w == 0 and rng.random() < 0.3:
            stmts.append("drop table t1")
            effects.append(("drop", "t1", None))
        actors.append({"name": f"w{w}", "kind": "sql", "stmts": stmts, "delay_ms": rng.choice([0, 0, 2, 500])})
        writers.append(effects)
    for r in range(rng.choice([1, 2, 3])):
        actors.append({"name": f"r{r}", "kind": "reader", "table": rng.choice(sorted(rows)),
                       "batch": rng.choice([1, 2, 5, None]), "pause_yields": rng.choice([0, 1, 3]),
                       "pause_ms": rng.choice([0, 0, 1, 300, 1001]), "delay_ms": rng.choice([0, 0, 1, 5, 600, 1002]),
                       "sorted": pk and rng.random() < 0.5})
    actors.append({"name": "clk", "kind": "clock", "ticks": rng.choice([1, 2, 3]), "delay_ms": rng.choice([0, 1, 50])})
    sc = {"seed": seed * 100003 + idx, "block": rng.choice([32, 64]), "rowset": rng.choice([150, 300, 2000]),
          "crc": True, "setup": setup, "actors": actors, "p_yield": rng.choice([0, 20, 50, 80]),
          "max_yields": rng.choice([1, 3, 6]), "p_sleep": rng.choice([0, 5, 25]), "p_long_sleep": rng.choice([0, 5, 20, 60]),
          "final": [f"select * from {n}" for n in sorted(rows)], "reopen": True, "final_ticks": 2}
    if directed:
        sc["gates"] = [directed]
        sc["p_yield"], sc["p_sleep"] = 10, 0
    return sc, rows, writers


def apply_effects(state, effects, upto):
    """state: {table: {uid: k}} (copied); applies the first `upto` acked effects"""
    for eff in effects[:upto]:
        if eff is None:
            continue
        kind, name, arg = eff
        if name not in state:
            continue
        if kind == "ins":
            for u, k in arg:
                state[name][u] = k
        elif kind == "del":
            for u in arg:
                state[name].pop(u, None)
        elif kind == "drop":
            del state[name]


def judge(sc, rows, writers, out):
    v = []
    info = dict(readers=0, nontrivial_readers=0, sig=None, trace={}, skipped=0)
    if out.get("error"):
        return [("database-open-failed", out["error"])], info
    for p in out.get("panics", []):
        v.append(("panic:" + panic_site(p), p[:200]))
    # writer histories
    sess = []
    actors = {a["name"]: i for i, a in enumerate(sc["actors"])}
    for w, effects in enumerate(writers):
        res = out["actors"][actors[f"w{w}"]]
        hist = [x for x in res.get("history", [])]
        eff_acked = []
        sql_stmts = [s for s in sc["actors"][actors[f"w{w}"]]["stmts"] if not s.startswith("<sleep")]
        for i, hh in enumerate(hist):
            eff = effects[i] if i < len(effects) else None
            if hh.get("panic") or hh.get("stuck"):
                v.append(("writer-" + ("panicked" if hh.get("panic") else "stuck"), f"{hh['sql'][:80]}: {hh.get('err')}"))
            eff_acked.append((eff if hh["ok"] else None, hh.get("inv", 0), hh.get("ret", 1 << 60), hh["ok"], hh["sql"]))
        sess.append(eff_acked)
    base = {n: dict(r) for n, r in rows.items()}
    # readers
    for i, a in enumerate(sc["actors"]):
        if a["kind"] != "reader":
            continue
        r = out["actors"][i]
        if r.get("skipped"):
            info["skipped"] += 1
            continue
        info["readers"] += 1
        if not r.get("ok"):
            v.append(("reader-failed", f"reader on {a['table']} (batch {a['batch']}): {r.get('err')}"))
            continue
        got = ms([tuple(x) for x in r["rows"]])
        uids = [x[0] for x in got]
        if len(set(uids)) != len(uids):
            v.append(("reader-duplicate-rows", f"reader on {a['table']} returned duplicated uids {[u for u in set(uids) if uids.count(u) > 1][:5]}"))
            continue
        ranges = []
        for s in sess:
            lo = 0
            for k, (eff, inv, ret, ok, sql) in enumerate(s):
                if ret < r["inv"]:
                    lo = k + 1
            hi = len([1 for (eff, inv, ret, ok, sql) in s if inv <= r["started"]])
            ranges.append(range(lo, max(lo, hi) + 1))
        found = False
        for combo in itertools.product(*ranges):
            st = {n: dict(x) for n, x in base.items()}
            for s, upto in zip(sess, combo):
                apply_effects(st, [e[0] for e in s], upto)
            want = ms([(u, k) for u, k in st.get(a["table"], {}).items()]) if a["table"] in st else None
            if want is not None and want == got:
                found = True
                break
            if want is None and not got:
                found = True
                break
        if any(len(rg) > 1 for rg in ranges):
            info["nontrivial_readers"] += 1
        if not found:
            v.append(("reader-not-a-snapshot", f"reader on {a['table']} (window {r['inv']}..{r['started']}) returned {len(got)} rows that match no admissible prefix combination {[(rg.start, rg.stop - 1) for rg in ranges]}; uids {uids[:20]}"))
        if a.get("sorted") and uids != sorted(uids):
            v.append(("sorted-scan-not-in-key-order", f"ordered scan returned uids {uids[:15]}"))
    # final state
    full = {n: dict(x) for n, x in base.items()}
    for s in sess:
        apply_effects(full, [e[0] for e in s], len(s))
    for label, hist in (("final", out.get("final", [])), ("after-reopen", out.get("final_after_reopen", []))):
        for hh in hist:
            name = hh["sql"].split()[-1]
            if name not in full:
                continue
            if not hh["ok"]:
                v.append((f"{label}-select-failed", f"{hh['sql']}: {hh.get('err')}"))
                continue
            if ms(stmt_rows(hh)) != ms(list(full[name].items())):
                g = dict(stmt_rows(hh))
                lost = sorted(set(full[name]) - set(g))[:5]
                extra = sorted(set(g) - set(full[name]))[:5]
                v.append((f"{label}-state-differs", f"{name}: lost uids {lost}, unexpected uids {extra}"))
    if out.get("reopen") and not out["reopen"].get("ok"):
        v.append(("reopen-failed", str(out["reopen"])[:200]))
    tv, stats = trace_spec(out.get("setup_events", []) + out.get("events", []))
    v.extend(tv)
    info["trace"] = stats
    info["sig"] = interleaving_signature(out.get("events", []))
    info["infeasible"] = out.get("infeasible_gates", 0)
    info["points"] = out.get("points_hit", {})
    if out.get("deadlock"):
        v.append(("virtual-deadline", "an actor never finished (virtual time)"))
    return v, info


def run_case(args):
    seed, idx, directed = args
    rng = random.Random(f"c08-{seed}-{idx}")
    sc, rows, writers = gen_scenario(rng, seed, idx, directed)
    out, err = run_scenario(sc, timeout=240)
    if out is None:
        return dict(seed=seed, idx=idx, inconclusive=err, violations=[], info=None, directed=directed)
    try:
        v, info = judge(sc, rows, writers, out)
    except Exception as e:
        import traceback
        return dict(seed=seed, idx=idx, inconclusive=f"oracle error: {type(e).__name__}: {e} {traceback.format_exc()[-300:]}", violations=[], info=None, directed=directed)
    return dict(seed=seed, idx=idx, inconclusive=None, violations=v, info=info, directed=directed,
                sample=dict(actors=[{k: x[k] for k in x if k != "stmts"} | ({"stmts": x["stmts"][:3]} if "stmts" in x else {}) for x in sc["actors"]][:4]))


def directed_gates():
    """Directed schedules: park actor A at point p until actor/background reaches event e."""
    gs = []
    for p in ["txn.after_pin", "txn.start"]:
        for until in ["commit", "compactor.committed", "vacuum_select", "vacuum_unlinked"]:
            gs.append({"actor": "r0", "point": p, "until": until})
    for p in ["compactor.before_lock", "compactor.after_read", "compactor.before_commit", "vacuum.before_unlink"]:
        for until in ["pin", "commit", "unpin"]:
            gs.append({"actor": "bg", "point": p, "until": until})
    for p in ["txn.before_commit", "commit.before_append", "commit.before_publish"]:
        for until in ["pin", "compactor.committed"]:
            gs.append({"actor": "bg", "point": p, "until": until})
    return gs


def sentinel(w):
    res = run_case((w["seed"], w["idx"], w.get("directed")))
    return res["violations"]


def run(tier, seed):
    rep = Report("C08", tier, seed, "exploration")
    n = 800 if tier == "quick" else 12000
    rep.rule = ("scenarios: 1-2 tables in several row-sets, 1-2 SQL writers (inserts with unique ids, deletes by id, drop table), "
                "1-3 storage-level readers with random start delays / batch sizes / pauses, the engine's compactor and vacuum "
                "driven by a clock actor; seeded perturbation at 11 hook points (thorough: also directed gates for ordered pairs "
                "of points); distinct non-trivial = distinct interleaving signatures (order of (actor, event)) of runs in which a "
                "reader had at least one writer statement overlapping its start window or committed while it was reading")
    items = [(seed, i, None) for i in range(n)]
    if tier == "thorough":
        gs = directed_gates()
        items += [(seed, 100000 + i, gs[i % len(gs)]) for i in range(len(gs) * 40)]
    tot = dict(readers=0, nontrivial=0, commits=0, pins=0, vac=0, vac_pinned=0, infeasible=0, skipped=0)
    points = {}
    sigs = set()
    for res in parallel_map(run_case, items):
        rep.evaluations += 1
        if res["inconclusive"]:
            rep.inc(res["inconclusive"][:60])
            continue
        info = res["info"]
        tot["readers"] += info["readers"]
        tot["nontrivial"] += info["nontrivial_readers"]
        tot["skipped"] += info["skipped"]
        tot["infeasible"] += info.get("infeasible", 0)
        st = info["trace"]
        tot["commits"] += st.get("commits", 0)
        tot["pins"] += st.get("pins", 0)
        tot["vac"] += st.get("vacuum_selects", 0)
        tot["vac_pinned"] += st.get("vacuum_while_pinned_older", 0)
        for k, x in info.get("points", {}).items():
            points[k] = points.get(k, 0) + x
        sigs.add(info["sig"])
        if info["nontrivial_readers"] or st.get("vacuum_while_pinned_older", 0):
            rep.distinct.add(info["sig"])
        rep.sample(res["sample"], limit=3)
        for sig, what in res["violations"]:
            rep.add_violation(Violation(sig, what, dict(seed=res["seed"], idx=res["idx"], directed=res["directed"])))
    run_sentinels(rep, sentinel)
    rep.coverage.update(readers_judged=tot["readers"], readers_with_overlapping_writes=tot["nontrivial"],
                        distinct_interleaving_signatures=len(sigs), commits_observed=tot["commits"], pins_observed=tot["pins"],
                        vacuum_selections_observed=tot["vac"], vacuum_selections_while_some_epoch_pinned=tot["vac_pinned"],
                        hook_points_hit=points, infeasible_directed_gates=tot["infeasible"], readers_skipped_table_gone=tot["skipped"])
    rep.floor("readers judged", tot["readers"], n)
    rep.floor("readers overlapping writer statements", tot["nontrivial"], n // 8)
    rep.floor("vacuum selections observed by the trace checker", tot["vac"], n // 2)
    rep.floor("hook points hit", len(points), 9)
    rep.assumptions = ["current-thread runtime, paused clock: interleavings at hook points and existing await points only",
                       "writers own disjoint ids, so per-session prefixes compose; a statement is visible to a reader entirely or not at all",
                       "multi-thread/TSan legs are part of C10"]
    if tier == "thorough" and not os.environ.get("VERIF_OVERLAY"):
        import sanitize
        sanitize.overlay(rep, "asan", timeout=5400)
        sanitize.overlay(rep, "tsan", timeout=5400)
    return rep.finish()


def replay(path):
    import json
    w = json.load(open(path))["witness"]
    k = 0
    for i in range(5):
        out = sentinel(w)
        if out:
            k += 1
            print("VIOLATION-REPRO", out[:2])
    print(f"reproduced {k}/5")
    return 1 if k else 0
