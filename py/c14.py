"""C14 - vectorised expression evaluation equals scalar SQL semantics.

Kernel leg (`rlv kern ops`): binary arithmetic / comparison / AND / OR / || over every operand
type combination the kernels accept (INT16/32/64, DOUBLE, DECIMAL, BOOLEAN, VARCHAR), unary
minus / NOT, CASE selection and integer casts, on batches of 0..200 rows around the 64-bit
bitmap word; operand arrays are built with from_data so NULL slots carry arbitrary raw bits; an
independent scalar interpreter (i128 / f64 / Decimal / 3VL) gives the expected value per row,
overflow and out-of-range must be errors, x/0 and x%0 NULL; a row evaluated alone must give the
same value as in the batch.
SQL leg: constant expressions are evaluated with the optimizer on (folded at plan time) and off
(evaluated at run time): same rows, or both fail."""
import os
import json
import random
import subprocess

from common import Report, Violation, RLV, NCPU, parallel_map, h, run_sentinels
from sqlcase import RL, ms


def shard(args):
    seed, n, sh = args
    try:
        p = subprocess.run([RLV, "kern", "ops", str(seed), str(n), str(sh)], stdout=subprocess.PIPE,
                           stderr=subprocess.PIPE, text=True, timeout=1800)
    except subprocess.TimeoutExpired:
        return dict(error="watchdog")
    if p.returncode not in (0, 1):
        return dict(error=f"driver rc={p.returncode}: {p.stderr[-200:]}")
    try:
        return json.loads(p.stdout.strip().splitlines()[-1])
    except Exception as e:
        return dict(error=f"bad output: {e}")


INTS = ["0", "1", "-1", "2", "7", "-7", "100", "2147483647", "-2147483647", "46341", "65536", "9223372036854775807", "NULL"]


def const_int(rng, d=0, safe=False):
    """safe: no operand that can overflow / fail a cast (used inside CASE branches: the run-time CASE
    evaluates the branch that is not taken as well - known finding with its own sentinel)"""
    x = rng.random()
    if safe:
        if d >= 2 or x < 0.5:
            return rng.choice(INTS[:7] + ["NULL"])
        return f"({const_int(rng, d + 1, True)} {rng.choice(['+', '-', '/', '%'])} {const_int(rng, d + 1, True)})"
    if d >= 2 or x < 0.35:
        return rng.choice(INTS)
    if x < 0.7:
        return f"({const_int(rng, d + 1)} {rng.choice(['+', '-', '*', '/', '%'])} {const_int(rng, d + 1)})"
    if x < 0.8:
        return f"(- {const_int(rng, d + 1)})"
    if x < 0.9:
        return f"(CASE WHEN {const_bool(rng, d + 1)} THEN {const_int(rng, d + 1, True)} ELSE {const_int(rng, d + 1, True)} END)"
    return f"CAST({const_int(rng, d + 1)} AS {rng.choice(['INT', 'BIGINT', 'SMALLINT'])})"


def const_bool(rng, d=0):
    x = rng.random()
    if d >= 2 or x < 0.4:
        return f"({const_int(rng, 2)} {rng.choice(['=', '<>', '<', '<=', '>', '>='])} {const_int(rng, 2)})"
    if x < 0.65:
        return f"({const_bool(rng, d + 1)} {rng.choice(['AND', 'OR'])} {const_bool(rng, d + 1)})"
    if x < 0.75:
        return f"(NOT {const_bool(rng, d + 1)})"
    if x < 0.85:
        return f"({const_int(rng, d + 1)} IS {'NOT ' if rng.random() < 0.5 else ''}NULL)"
    if x < 0.93:
        return f"({const_int(rng, 2)} {'NOT ' if rng.random() < 0.3 else ''}IN ({rng.choice(INTS[:9])}, {rng.choice(INTS[:9])}))"
    return rng.choice(["true", "false"])


def fold_case(args):
    seed, idx, n = args
    rng = random.Random(f"c14-{seed}-{idx}")
    res = dict(violations=[], evals=0, both_ok=0, both_fail=0, distinct=[], inconclusive=None, samples=[])
    rl = RL("mem")
    try:
        for _ in range(n):
            e = const_int(rng) if rng.random() < 0.6 else const_bool(rng)
            sql = f"SELECT {e} AS c0"
            rl.sql("PRAGMA disable_optimizer")
            ref = rl.sql(sql)
            rl.sql("PRAGMA enable_optimizer")
            opt = rl.sql(sql)
            res["evals"] += 1
            if ref.get("dead") or opt.get("dead"):
                res["inconclusive"] = "runner died"
                break
            if ref.get("kind") in ("bind", "parse") or opt.get("kind") in ("bind", "parse"):
                continue
            if len(res["samples"]) < 2:
                res["samples"].append(sql)
            if ref["ok"] and opt["ok"]:
                if ms(ref["rows"]) != ms(opt["rows"]):
                    culprits = []
                    for name in sorted((opt.get("raw", {}).get("rules") or {})):
                        rl.cmd({"op": "deny_rules", "rules": [name]})
                        r2 = rl.sql(sql)
                        if r2["ok"] and ms(r2["rows"]) == ms(ref["rows"]):
                            culprits.append(name)
                    rl.cmd({"op": "deny_rules", "rules": []})
                    sig = "folded-value-differs:" + ("rule:" + "+".join(culprits[:3]) if culprits else "constant-analysis")
                    res["violations"].append(dict(signature=sig, what=f"{sql}: folded {opt['rows']} vs run-time {ref['rows']}", sql=sql))
                else:
                    res["both_ok"] += 1
                    res["distinct"].append(h(sql))
            elif ref["ok"] != opt["ok"]:
                bad = opt if not opt["ok"] else ref
                pan = (bad.get("panics") or [""])[0].split("|")[0].replace("/repo/", "")
                from c05 import err_class
                side = "folded-fails" if not opt["ok"] else "runtime-fails"
                res["violations"].append(dict(signature=f"{side}:{pan or err_class(bad.get('err', ''))}",
                                              what=f"{sql}: optimizer on: {opt.get('rows', opt.get('err', ''))!s:.80} / off: {ref.get('rows', ref.get('err', ''))!s:.80}", sql=sql))
            else:
                res["both_fail"] += 1
    except Exception as ex:
        res["inconclusive"] = f"harness: {type(ex).__name__}: {ex}"
    finally:
        rl.close()
    return res


def sentinel(w):
    rl = RL("mem")
    try:
        sql = w["sql"]
        rl.sql("PRAGMA disable_optimizer")
        ref = rl.sql(sql)
        rl.sql("PRAGMA enable_optimizer")
        opt = rl.sql(sql)
        if ref["ok"] and opt["ok"] and ms(ref["rows"]) != ms(opt["rows"]):
            return [(w["signature"], f"{sql}: folded {opt['rows']} vs run-time {ref['rows']}")]
        if ref["ok"] != opt["ok"]:
            return [(w["signature"], f"{sql}: on {opt.get('rows', opt.get('err'))} off {ref.get('rows', ref.get('err'))}")]
        return []
    finally:
        rl.close()


def run(tier, seed):
    from concurrent.futures import ThreadPoolExecutor
    rep = Report("C14", tier, seed, "exploration")
    per, shards, nfold = (6000, 16, 40) if tier == "quick" else (400000, 16, 600)
    rep.rule = ("kernel leg: random (operator, operand types, batch length in {0,1,2,17,63,64,65,130,200}, NULL density, boundary "
                "pools, arbitrary raw bits under NULL) cases judged row by row against a scalar interpreter; SQL leg: random "
                "constant expressions with the optimizer on vs off; distinct non-trivial = distinct (operator, operand types) "
                "combinations judged plus distinct constant expressions that evaluated on both sides")
    combos, rows, cases = {}, 0, 0
    with ThreadPoolExecutor(max_workers=NCPU) as ex:
        for r in ex.map(shard, [(seed, per, s) for s in range(shards)]):
            if "error" in r:
                rep.inc(r["error"][:60])
                continue
            cases += r["cases"]
            rows += r["row_evaluations"]
            for k, v in r["combos"].items():
                combos[k] = combos.get(k, 0) + v
            for s in r["samples"]:
                rep.sample(s, limit=3)
            for v in r["violations"]:
                rep.add_violation(Violation("kernel:" + v["signature"], v["what"], dict(kernel=True)))
    tot = dict(ok=0, fail=0)
    folds = set()
    for res in parallel_map(fold_case, [(seed, i, nfold) for i in range(16)]):
        rep.evaluations += res["evals"]
        tot["ok"] += res["both_ok"]
        tot["fail"] += res["both_fail"]
        folds.update(res["distinct"])
        if res["inconclusive"]:
            rep.inc(res["inconclusive"][:50])
        for s in res["samples"]:
            rep.sample(s, limit=5)
        for v in res["violations"]:
            rep.add_violation(Violation(v["signature"], v["what"], dict(sql=v["sql"], signature=v["signature"])))
    run_sentinels(rep, sentinel)
    rep.evaluations += rows
    rep.distinct = len(combos) + len(folds)
    rep.coverage.update(kernel_cases=cases, kernel_row_evaluations=rows, operator_type_combinations=len(combos),
                        constant_expressions_equal_on_both_sides=tot["ok"], constant_expressions_failing_on_both_sides=tot["fail"])
    rep.floor("operator/type combinations judged", len(combos), 150)
    rep.floor("row evaluations", rows, per * shards * 10)
    rep.floor("constant expressions compared", tot["ok"], nfold * 4)
    rep.assumptions = ["NaN and infinities are not used as operands of comparisons (SQL leaves them implementation-defined)",
                       "float results are compared by bits except for the sign of zero"]
    if tier == "thorough" and not os.environ.get("VERIF_OVERLAY"):
        import sanitize
        sanitize.overlay(rep, "asan", timeout=5400)
        sanitize.miri(rep, [["ops", seed, 60, sh] for sh in range(16)], timeout=3000)
    return rep.finish()


def replay(path):
    w = json.load(open(path))["witness"]
    if w.get("kernel"):
        print("kernel violations are reproduced by: rlv kern ops <seed> <n> <shard> (deterministic)")
        return 1
    out = sentinel(w)
    for s in out:
        print("VIOLATION-REPRO", s)
    return 1 if out else 0
