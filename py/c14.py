"""C14 - vectorised expression evaluation equals scalar SQL semantics.

Kernel leg (`rlv kern ops`): binary arithmetic / comparison / AND / OR / || over every operand
type combination the kernels accept (INT16/32/64, DOUBLE, DECIMAL, BOOLEAN, VARCHAR), unary
minus / NOT, CASE selection and integer casts, on batches of 0..200 rows around the 64-bit
bitmap word; operand arrays are built with from_data so NULL slots carry arbitrary raw bits; an
independent scalar interpreter (i128 / f64 / Decimal / 3VL) gives the expected value per row,
overflow and out-of-range must be errors, x/0 and x%0 NULL; a row evaluated alone must give the
same value as in the batch.
SQL leg: constant expressions are evaluated with the optimizer on (folded at plan time) and off
(evaluated at run time): same rows, or both fail."""
import os
import json
import random
import subprocess

from common import Report, Violation, RLV, NCPU, parallel_map, h, run_sentinels, panic_site
from sqlcase import RL, ms


def shard(args, driver="ops"):
    seed, n, sh = args
    try:
        p = subprocess.run([RLV, "kern", driver, str(seed), str(n), str(sh)], stdout=subprocess.PIPE,
                           stderr=subprocess.PIPE, text=True, timeout=1800)
    except subprocess.TimeoutExpired:
        return dict(error="watchdog")
    if p.returncode not in (0, 1):
        return dict(error=f"driver rc={p.returncode}: {p.stderr[-200:]}")
    try:
        return json.loads(p.stdout.strip().splitlines()[-1])
    except Exception as e:
        return dict(error=f"bad output: {e}")


def iso_shard(args):
    return shard(args, "iso")


INTS = ["0", "1", "-1", "2", "7", "-7", "100", "2147483647", "-2147483647", "46341", "65536", "9223372036854775807", "NULL"]


def const_int(rng, d=0, safe=False):
    """safe: no operand that can overflow / fail a cast (used inside CASE branches: the run-time CASE
    evaluates the branch that is not taken as well - known finding with its own sentinel)"""
    x = rng.random()
    if safe:
        if d >= 2 or x < 0.5:
            return rng.choice(INTS[:7] + ["NULL"])
        return f"({const_int(rng, d + 1, True)} {rng.choice(['+', '-', '/', '%'])} {const_int(rng, d + 1, True)})"
    if d >= 2 or x < 0.35:
        return rng.choice(INTS)
    if x < 0.7:
        return f"({const_int(rng, d + 1)} {rng.choice(['+', '-', '*', '/', '%'])} {const_int(rng, d + 1)})"
    if x < 0.8:
        return f"(- {const_int(rng, d + 1)})"
    if x < 0.9:
        return f"(CASE WHEN {const_bool(rng, d + 1)} THEN {const_int(rng, d + 1, True)} ELSE {const_int(rng, d + 1, True)} END)"
    return f"CAST({const_int(rng, d + 1)} AS {rng.choice(['INT', 'BIGINT', 'SMALLINT'])})"


def const_bool(rng, d=0):
    x = rng.random()
    if d >= 2 or x < 0.4:
        return f"({const_int(rng, 2)} {rng.choice(['=', '<>', '<', '<=', '>', '>='])} {const_int(rng, 2)})"
    if x < 0.65:
        return f"({const_bool(rng, d + 1)} {rng.choice(['AND', 'OR'])} {const_bool(rng, d + 1)})"
    if x < 0.75:
        return f"(NOT {const_bool(rng, d + 1)})"
    if x < 0.85:
        return f"({const_int(rng, d + 1)} IS {'NOT ' if rng.random() < 0.5 else ''}NULL)"
    if x < 0.93:
        return f"({const_int(rng, 2)} {'NOT ' if rng.random() < 0.3 else ''}IN ({rng.choice(INTS[:9])}, {rng.choice(INTS[:9])}))"
    return rng.choice(["true", "false"])


def fold_case(args):
    seed, idx, n = args
    rng = random.Random(f"c14-{seed}-{idx}")
    res = dict(violations=[], evals=0, both_ok=0, both_fail=0, distinct=[], inconclusive=None, samples=[])
    rl = RL("mem")
    try:
        for _ in range(n):
            e = const_int(rng) if rng.random() < 0.6 else const_bool(rng)
            sql = f"SELECT {e} AS c0"
            rl.sql("PRAGMA disable_optimizer")
            ref = rl.sql(sql)
            rl.sql("PRAGMA enable_optimizer")
            opt = rl.sql(sql)
            res["evals"] += 1
            if ref.get("dead") or opt.get("dead"):
                res["inconclusive"] = "runner died"
                break
            if ref.get("kind") in ("bind", "parse") or opt.get("kind") in ("bind", "parse"):
                continue
            if len(res["samples"]) < 2:
                res["samples"].append(sql)
            if ref["ok"] and opt["ok"]:
                if ms(ref["rows"]) != ms(opt["rows"]):
                    culprits = []
                    for name in sorted((opt.get("raw", {}).get("rules") or {})):
                        rl.cmd({"op": "deny_rules", "rules": [name]})
                        r2 = rl.sql(sql)
                        if r2["ok"] and ms(r2["rows"]) == ms(ref["rows"]):
                            culprits.append(name)
                    rl.cmd({"op": "deny_rules", "rules": []})
                    sig = "folded-value-differs:" + ("rule:" + "+".join(culprits[:3]) if culprits else "constant-analysis")
                    res["violations"].append(dict(signature=sig, what=f"{sql}: folded {opt['rows']} vs run-time {ref['rows']}", sql=sql))
                else:
                    res["both_ok"] += 1
                    res["distinct"].append(h(sql))
            elif ref["ok"] != opt["ok"]:
                bad = opt if not opt["ok"] else ref
                pan = panic_site(bad.get("panics")[0]) if bad.get("panics") else ""
                from c05 import err_class
                side = "folded-fails" if not opt["ok"] else "runtime-fails"
                res["violations"].append(dict(signature=f"{side}:{pan or err_class(bad.get('err', ''))}",
                                              what=f"{sql}: optimizer on: {opt.get('rows', opt.get('err', ''))!s:.80} / off: {ref.get('rows', ref.get('err', ''))!s:.80}", sql=sql))
            else:
                res["both_fail"] += 1
    except Exception as ex:
        res["inconclusive"] = f"harness: {type(ex).__name__}: {ex}"
    finally:
        rl.close()
    return res


# ----------------------------------------------------------------------------------------------
# predicate leg: a boolean expression in projection position, in WHERE position and negated must
# agree with an independent scalar 3VL evaluation of every row (the consumers of a boolean array -
# filter, join - read it differently from a projection: raw slots under NULL must not leak)

import fnmatch
import re as _re


def _like(s, pat):
    if s is None:
        return None
    rx = "".join(".*" if ch == "%" else "." if ch == "_" else _re.escape(ch) for ch in pat)
    return _re.fullmatch(rx, s, _re.S) is not None


def _and(x, y):
    if x is False or y is False:
        return False
    if x is None or y is None:
        return None
    return True


def _or(x, y):
    if x is True or y is True:
        return True
    if x is None or y is None:
        return None
    return False


def _not(x):
    return None if x is None else (not x)


PCOLS = [("a", "INT"), ("b", "INT"), ("s", "VARCHAR"), ("t", "VARCHAR"), ("c", "BOOLEAN")]
PATTERNS = ["%", "%%", "", "a%", "%a", "_", "a_", "%b%", "ab", "_%",
            # characters that mean something to a regular-expression engine stand for themselves in LIKE
            "a.c", ".", "a.%", "(", "a*", "[ab]", "a|b", "^a", "a$", "_._", "a+", "a?", "{1}", "%)"]


def gen_bexpr(rng, d=0):
    """-> (sql, fn(row dict) -> True/False/None)"""
    kinds = ["cmp_cc", "cmp_ck", "like", "like", "isnull", "boolcol", "between", "inlist"]
    if d < 2:
        kinds += ["and", "or", "not", "and", "or"]
    k = rng.choice(kinds)
    ints, strs = ["a", "b"], ["s", "t"]
    if k == "cmp_cc":
        x, y = (rng.choice(ints), rng.choice(ints)) if rng.random() < 0.5 else (rng.choice(strs), rng.choice(strs))
        op = rng.choice(["=", "<>", "<", "<=", ">", ">="])
        return f"({x} {op} {y})", lambda r, x=x, y=y, op=op: _mcmp(op, r[x], r[y])
    if k == "cmp_ck":
        if rng.random() < 0.5:
            x, v = rng.choice(ints), rng.randint(-1, 4)
            op = rng.choice(["=", "<>", "<", "<=", ">", ">="])
            return f"({x} {op} {v})", lambda r, x=x, v=v, op=op: _mcmp(op, r[x], v)
        x, v = rng.choice(strs), rng.choice(["a", "ab", "", "b"])
        op = rng.choice(["=", "<>", "<", ">="])
        return f"({x} {op} '{v}')", lambda r, x=x, v=v, op=op: _mcmp(op, r[x], v)
    if k == "like":
        x, pat = rng.choice(strs), rng.choice(PATTERNS)
        neg = rng.random() < 0.25
        return (f"({x} {'NOT ' if neg else ''}LIKE '{pat}')",
                lambda r, x=x, pat=pat, neg=neg: (_not(_like(r[x], pat)) if neg else _like(r[x], pat)))
    if k == "isnull":
        x = rng.choice(ints + strs + ["c"])
        neg = rng.random() < 0.5
        return f"({x} IS {'NOT ' if neg else ''}NULL)", lambda r, x=x, neg=neg: (r[x] is not None) if neg else (r[x] is None)
    if k == "boolcol":
        return "c", lambda r: r["c"]
    if k == "between":
        x, lo, hi = rng.choice(ints), rng.randint(-1, 2), rng.randint(1, 4)
        return f"({x} BETWEEN {lo} AND {hi})", lambda r, x=x, lo=lo, hi=hi: _and(_mcmp(">=", r[x], lo), _mcmp("<=", r[x], hi))
    if k == "inlist":
        x, vs = rng.choice(ints), [rng.randint(-1, 4) for _ in range(rng.randint(1, 3))]

        def f(r, x=x, vs=vs):
            out = False
            for v in vs:
                out = _or(out, _mcmp("=", r[x], v))
            return out
        return f"({x} IN ({', '.join(map(str, vs))}))", f
    if k == "not":
        e, f = gen_bexpr(rng, d + 1)
        return f"(NOT {e})", lambda r, f=f: _not(f(r))
    e1, f1 = gen_bexpr(rng, d + 1)
    e2, f2 = gen_bexpr(rng, d + 1)
    if k == "and":
        return f"({e1} AND {e2})", lambda r, f1=f1, f2=f2: _and(f1(r), f2(r))
    return f"({e1} OR {e2})", lambda r, f1=f1, f2=f2: _or(f1(r), f2(r))


def _mcmp(op, a, b):
    if a is None or b is None:
        return None
    return {"=": a == b, "<>": a != b, "<": a < b, "<=": a <= b, ">": a > b, ">=": a >= b}[op]


def pred_case(args):
    seed, idx, n = args
    rng = random.Random(f"c14-pred-{seed}-{idx}")
    res = dict(violations=[], evals=0, judged=0, distinct=[], inconclusive=None, samples=[], kinds={})
    engine = "mem" if idx % 2 == 0 else "disk"
    rl = RL(engine, dict(block=64, rowset=400, crc=True, first_key=True))
    try:
        rl.sql("CREATE TABLE p(id INT NOT NULL, a INT, b INT, s VARCHAR, t VARCHAR, c BOOLEAN)")
        rows = []
        nrows = rng.choice([5, 40, 70, 130])
        for i in range(nrows):
            rows.append(dict(id=i, a=rng.choice([None, 0, 1, 2, 3]), b=rng.choice([None, 0, 1, 2]),
                             s=rng.choice([None, None, "", "a", "ab", "b", "ba", "a.c", "abc", "(", "a*", "aa", "a|b", "^a", "a$", "{1}", "a\nc"]), t=rng.choice([None, "", "a", "ab", ".", "a)"]),
                             c=rng.choice([None, True, False])))
        for i in range(0, nrows, 50):
            vals = ", ".join("(" + ", ".join("NULL" if r[k] is None else (f"'{r[k]}'" if isinstance(r[k], str) else str(r[k]).lower())
                                             for k in ["id", "a", "b", "s", "t", "c"]) + ")" for r in rows[i:i + 50])
            r = rl.sql(f"INSERT INTO p VALUES {vals}")
            if not r["ok"]:
                res["inconclusive"] = "insert failed: " + r.get("err", "")[:60]
                return res
        for _ in range(n):
            e, f = gen_bexpr(rng)
            want = {r["id"]: f(r) for r in rows}
            q1 = f"SELECT id, {e} AS v FROM p"
            q2 = f"SELECT id FROM p WHERE {e}"
            q3 = f"SELECT id FROM p WHERE NOT {e}"
            r1, r2, r3 = rl.sql(q1), rl.sql(q2), rl.sql(q3)
            res["evals"] += 3
            if any(x.get("dead") for x in (r1, r2, r3)):
                res["inconclusive"] = "runner died"
                break
            if not (r1["ok"] and r2["ok"] and r3["ok"]):
                bad = [(q, x) for q, x in ((q1, r1), (q2, r2), (q3, r3)) if not x["ok"]]
                if len(bad) < 3:
                    q, x = bad[0]
                    res["violations"].append(dict(signature="predicate:fails-in-one-position", what=f"{q}: {x.get('err', '')[:100]} {x.get('panics')} (the other positions evaluate)", sql=q))
                continue
            res["judged"] += 1
            res["distinct"].append(h(e))
            if len(res["samples"]) < 2:
                res["samples"].append(q2)
            got1 = {row[0]: (None if row[1] is None else bool(row[1])) for row in r1["rows"]}
            if got1 != want:
                d = [(i, got1.get(i), want[i]) for i in want if got1.get(i) != want[i]][:3]
                res["violations"].append(dict(signature="predicate:projected-value-differs-from-scalar", what=f"{q1}: (id, got, scalar) {d}; rows {[rows[i] for i, _, _ in d]}", sql=q1))
                continue
            for q, r, truth in ((q2, r2, True), (q3, r3, False)):
                ids = sorted(row[0] for row in r["rows"])
                exp = sorted(i for i, v in want.items() if v is truth)
                if ids != exp:
                    extra = [i for i in ids if i not in exp][:3]
                    lost = [i for i in exp if i not in ids][:3]
                    res["violations"].append(dict(signature="predicate:filter-differs-from-scalar",
                                                  what=f"{q}: unexpected ids {extra} (scalar value {[want[i] for i in extra]}), missing ids {lost}; rows {[rows[i] for i in (extra + lost)[:3]]}", sql=q))
                    break
    except Exception as ex:
        res["inconclusive"] = f"harness: {type(ex).__name__}: {ex}"
    finally:
        rl.close()
    return res



# ----------------------------------------------------------------------------------------------
# expression row-isolation leg (SQL level): any expression the binder accepts - arithmetic over all
# numeric types, CASE, CAST, EXTRACT, SUBSTRING, REPLACE, REPEAT, ||, LIKE, IN, BETWEEN, IS NULL, 3VL -
# evaluated over the whole table must give, for every row, the value it gives for that row alone
# (SELECT e FROM p WHERE id = k: the expression then sees a one-row chunk), and the statement over the
# table fails exactly when it fails for some row alone. No reference semantics: two executions of the
# real evaluator are compared.

XCOLS = dict(int=["a", "b"], big=["g"], small=["h"], dbl=["f", "f2"], dec=["d"], str=["s", "t"], bool=["c"], date=["dt"])


def gen_x(rng, ty, d=0, force=None):
    leaf = (d >= 3 or rng.random() < 0.3) and not force
    if ty == "int":
        if leaf:
            return rng.choice(XCOLS["int"] + [str(rng.choice([0, 1, -1, 2, 7, 2147483647, 100000]))])
        k = rng.choice(["arith", "arith", "neg", "case", "cast", "extract", "mod", "small", "len"])
        if k == "arith":
            return f"({gen_x(rng, 'int', d + 1)} {rng.choice(['+', '-', '*', '/'])} {gen_x(rng, 'int', d + 1)})"
        if k == "mod":
            return f"({gen_x(rng, 'int', d + 1)} % {gen_x(rng, 'int', d + 1)})"
        if k == "neg":
            return f"(- {gen_x(rng, 'int', d + 1)})"
        if k == "case":
            return f"(CASE WHEN {gen_x(rng, 'bool', d + 1)} THEN {gen_x(rng, 'int', d + 1)} ELSE {gen_x(rng, 'int', d + 1)} END)"
        if k == "cast":
            src = rng.choice(["str", "dbl", "dec", "big", "bool"])
            return f"CAST({gen_x(rng, src, d + 2)} AS INT)"
        if k == "extract":
            return f"EXTRACT({rng.choice(['YEAR', 'MONTH', 'DAY'])} FROM dt)"
        if k == "small":
            return f"CAST((h + {rng.choice(['h', '1', '32000'])}) AS INT)"
        return f"CAST({gen_x(rng, 'big', d + 1)} AS INT)"
    if ty == "big":
        if leaf:
            return rng.choice(["g", "CAST(a AS BIGINT)", "9223372036854775807"])
        return f"({gen_x(rng, 'big', d + 1)} {rng.choice(['+', '-', '*'])} {gen_x(rng, rng.choice(['big', 'int']), d + 1)})"
    if ty == "dbl":
        if leaf:
            return rng.choice(["f", "f2", "f", "f2", "1.5", "CAST(a AS DOUBLE)", "0.0"])
        return f"({gen_x(rng, 'dbl', d + 1)} {rng.choice(['+', '-', '*', '/'])} {gen_x(rng, 'dbl', d + 1)})"
    if ty == "dec":
        if leaf:
            return rng.choice(["d", "CAST(a AS DECIMAL(10,2))", "CAST(f AS DECIMAL(10,2))"])
        return f"({gen_x(rng, 'dec', d + 1)} {rng.choice(['+', '-', '*'])} {gen_x(rng, 'dec', d + 1)})"
    if ty == "str":
        if leaf:
            return rng.choice(XCOLS["str"] + ["'a'", "''", "'10'", "'abc'"])
        k = rng.choice(["concat", "substr", "replace", "repeat", "cast", "cases"])
        if k == "cases":
            return f"(CASE WHEN {gen_x(rng, 'bool', d + 1)} THEN {gen_x(rng, 'str', d + 1)} ELSE {gen_x(rng, 'str', d + 1)} END)"
        if k == "concat":
            return f"({gen_x(rng, 'str', d + 1)} || {gen_x(rng, 'str', d + 1)})"
        if k == "substr":
            return f"SUBSTRING({gen_x(rng, 'str', d + 1)} FROM {rng.choice(['1', '2', '0', '-1', 'a', 'b'])} FOR {rng.choice(['1', '2', '10', 'b', '0'])})"
        if k == "replace":
            return f"REPLACE({gen_x(rng, 'str', d + 1)}, '{rng.choice(['a', 'ab', '', 'b'])}', '{rng.choice(['', 'x', 'aa'])}')"
        if k == "repeat":
            return f"REPEAT({gen_x(rng, 'str', d + 1)}, {rng.choice(['0', '1', '2', '3'])})"
        return f"CAST({gen_x(rng, rng.choice(['int', 'dbl', 'bool', 'date', 'dec']), d + 2)} AS VARCHAR)"
    if ty == "bool":
        if leaf:
            return rng.choice(["c", "true", "false", "(a IS NULL)", "(s IS NOT NULL)"])
        k = force or rng.choice(["cmp", "cmp", "scmp", "like", "in", "between", "and", "or", "not", "dcmp", "castb", "caseb", "tcmp"])
        if k == "castb":   # the raw result of the computation lies under a NULL slot
            return f"CAST({gen_x(rng, rng.choice(['int', 'dbl', 'dec', 'big']), d + 1)} AS BOOLEAN)"
        if k == "caseb":
            return f"(CASE WHEN {gen_x(rng, 'bool', d + 1)} THEN {gen_x(rng, 'bool', d + 1)} ELSE {gen_x(rng, 'bool', d + 1)} END)"
        if k == "tcmp":
            op = rng.choice(['=', '<>', '<', '<=', '>', '>='])
            return rng.choice([f"(ts {op} TIMESTAMP '{rng.choice(['2000-01-01 00:00:00', '2024-02-29 12:30:00'])}')", f"(ts {op} ts)",
                               f"(iv {op} INTERVAL '{rng.choice(['1', '2', '30'])}' {rng.choice(['DAY', 'MONTH'])})", f"(iv {op} iv)"])
        if k == "cmp":
            t = rng.choice(["int", "int", "big", "dbl", "dec"])
            return f"({gen_x(rng, t, d + 1)} {rng.choice(['=', '<>', '<', '<=', '>', '>='])} {gen_x(rng, t, d + 1)})"
        if k == "scmp":
            return f"({gen_x(rng, 'str', d + 1)} {rng.choice(['=', '<>', '<', '>='])} {gen_x(rng, 'str', d + 1)})"
        if k == "dcmp":
            return f"(dt {rng.choice(['=', '<', '>='])} DATE '{rng.choice(['2000-01-01', '1999-12-31', '2024-02-29'])}')"
        if k == "like":
            return f"({gen_x(rng, 'str', d + 1)} {'NOT ' if rng.random() < 0.3 else ''}LIKE '{rng.choice(PATTERNS)}')"
        if k == "in":
            return f"({gen_x(rng, 'int', d + 1)} {'NOT ' if rng.random() < 0.3 else ''}IN ({rng.randint(-1, 3)}, {rng.randint(0, 7)}))"
        if k == "between":
            return f"({gen_x(rng, 'int', d + 1)} BETWEEN {rng.randint(-1, 2)} AND {rng.randint(1, 7)})"
        if k == "not":
            return f"(NOT {gen_x(rng, 'bool', d + 1)})"
        return f"({gen_x(rng, 'bool', d + 1)} {k.upper()} {gen_x(rng, 'bool', d + 1)})"
    if ty == "date":
        return rng.choice(["dt", "DATE '2000-01-01'"])
    raise ValueError(ty)


# directed probes of the filter position: a boolean that is the direct output of a kernel over two columns whose NULLs fall on
# different rows (the raw result of the computation then lies under the NULL slot of the result)
_PAIRS = dict(dbl=("f", "f2"), int=("a", "b"), big=("g", "CAST(a AS BIGINT)"), dec=("d", "CAST(b AS DECIMAL(10,2))"), small=("h", "CAST(b AS SMALLINT)"))
FILTER_PROBES = ([f"CAST(({x} {op} {y}) AS BOOLEAN)" for (x, y) in _PAIRS.values() for op in ("+", "-", "*", "/")]
                 + [f"CAST(({y} {op} {x}) AS BOOLEAN)" for (x, y) in _PAIRS.values() for op in ("-", "/", "%")]
                 + [f"CAST((- {x}) AS BOOLEAN)" for (x, _) in _PAIRS.values()]
                 + ["CAST(CAST(f AS INT) AS BOOLEAN)", "CAST((s || t) AS BOOLEAN)", "(CASE WHEN c THEN (a = b) ELSE c END)",
                    "(CASE WHEN (a > b) THEN c ELSE (f < f2) END)", "((s || t) LIKE 'a%')", "((a + b) IN (1, 2))", "((f + f2) BETWEEN 1 AND 7)",
                    "((f * f2) > 1.0)", "((d + d) >= 1)", "(SUBSTRING(s FROM a FOR b) = 'a')", "(EXTRACT(YEAR FROM dt) = 2000)", "(ts < ts)", "(iv = iv)"])


def _xlit(v):
    if v is None:
        return "NULL"
    if isinstance(v, bool):
        return "true" if v else "false"
    if isinstance(v, str):
        return v if v.startswith(("DATE ", "TIMESTAMP ", "INTERVAL ")) else "'" + v + "'"
    return str(v)


def _add_months(d, n):
    import calendar
    import datetime
    y, m = divmod(d.year * 12 + d.month - 1 + n, 12)
    m += 1
    if not (1 <= y <= 9999):
        return None
    return datetime.date(y, m, min(d.day, calendar.monthrange(y, m)[1]))


def date_case(args):
    """DATE +/- INTERVAL of one field against the calendar: months (and years = 12 months) move the month and clamp the day to
    the length of the target month *of the target year*, days move the day count. Month ends of leap and ordinary years and
    carries across a year boundary are drawn on purpose. Each case is evaluated as a folded constant and per row over a table
    (several dates in one batch), both against the model."""
    import datetime
    seed, idx, n = args
    rng = random.Random(f"c14-date-{seed}-{idx}")
    res = dict(violations=[], evals=0, judged=0, distinct=[], inconclusive=None, samples=[], unmodelled=0)
    years = [1999, 2000, 2001, 2019, 2020, 2021, 2023, 2024, 2100, 1900, 1970, 1969]
    def gen_date():
        y = rng.choice(years)
        m = rng.choice([1, 2, 2, 3, 10, 11, 12, 12, rng.randint(1, 12)])
        import calendar
        last = calendar.monthrange(y, m)[1]
        dd = rng.choice([1, 28, 29, 30, 31, last, last, rng.randint(1, 28)])
        return datetime.date(y, m, min(dd, last))
    rl = RL("mem")
    try:
        dates = [gen_date() for _ in range(12)]
        rl.sql("create table dt(id int, d date)")
        r = rl.sql("insert into dt values " + ", ".join(f"({i}, DATE '{d.isoformat()}')" for i, d in enumerate(dates)) + ", (99, NULL)")
        if not r["ok"]:
            res["inconclusive"] = "setup failed"
            return res
        for _ in range(n):
            unit = rng.choice(["month", "month", "month", "year", "day"])
            k = rng.choice([1, 2, 3, 11, 12, 13, 14, 23, 24, 25, 48, rng.randint(1, 400)]) if unit != "year" else rng.choice([1, 3, 4, 100])
            sign = rng.choice(["+", "+", "-"])
            kk = k if sign == "+" else -k
            def model(d):
                if unit == "day":
                    try:
                        return d + datetime.timedelta(days=kk)
                    except OverflowError:
                        return None
                return _add_months(d, kk * (12 if unit == "year" else 1))
            # (1) per row over the table
            sql = f"select id, d {sign} interval '{k}' {unit} from dt"
            r = rl.sql(sql)
            res["evals"] += 1
            if not r["ok"]:
                res["unmodelled"] += 1
                continue
            got = {row[0]: row[1] for row in r["rows"]}
            bad = None
            for i, d in enumerate(dates):
                w = model(d)
                if w is None:
                    continue
                if got.get(i) != "D:" + w.isoformat():
                    bad = (d, w, got.get(i))
                    break
            if got.get(99, "x") is not None:
                bad = bad or ("NULL", None, got.get(99))
            res["judged"] += 1
            res["distinct"].append(h([unit, kk, [d.isoformat() for d in dates]]))
            if bad:
                res["violations"].append(dict(signature=f"date-arithmetic:wrong-result:{unit}", sql=sql,
                                              what=f"{sql}: DATE '{bad[0]}' {sign} {k} {unit} = {bad[2]}, the calendar says {bad[1]}"))
                continue
            # (2) as a constant (folded by the optimizer)
            d = rng.choice(dates)
            w = model(d)
            if w is None:
                continue
            sql = f"select DATE '{d.isoformat()}' {sign} interval '{k}' {unit}"
            r = rl.sql(sql)
            res["evals"] += 1
            if r["ok"] and r["rows"] and r["rows"][0][0] != "D:" + w.isoformat():
                res["violations"].append(dict(signature=f"date-arithmetic:wrong-constant:{unit}", sql=sql,
                                              what=f"{sql} = {r['rows'][0][0]}, the calendar says {w}"))
            elif r["ok"]:
                res["judged"] += 1
        if len(res["samples"]) < 1:
            res["samples"].append(dict(date_arithmetic=sql))
    except Exception as e:
        res["inconclusive"] = f"harness: {type(e).__name__}: {e}"
    finally:
        rl.close()
    return res


def rowiso_case(args):
    seed, idx, n = args
    rng = random.Random(f"c14-rowiso-{seed}-{idx}")
    res = dict(violations=[], evals=0, judged=0, rows_compared=0, both_fail=0, distinct=[], inconclusive=None, samples=[])
    engine = "mem" if idx % 2 == 0 else "disk"
    rl = RL(engine, dict(block=64, rowset=400, crc=True, first_key=True))
    try:
        r = rl.sql("CREATE TABLE p(id INT NOT NULL, a INT, b INT, g BIGINT, h SMALLINT, f DOUBLE, d DECIMAL(10,2), s VARCHAR, t VARCHAR, c BOOLEAN, dt DATE, ts TIMESTAMP, iv INTERVAL, f2 DOUBLE)")
        if not r["ok"]:
            res["inconclusive"] = "create failed"
            return res
        nrows = rng.choice([3, 40, 66, 130])
        rows = []
        for i in range(nrows):
            rows.append([i, rng.choice([None, 0, 1, 2, 3, -1, 2147483647]), rng.choice([None, 0, 1, 2]),
                         rng.choice([None, 0, 1, 4294967296, 9223372036854775807]), rng.choice([None, 0, 1, 32767, -32768]),
                         rng.choice([None, 0.0, 1.5, -2.25, 123456789012345.5]), rng.choice([None, "0", "1.50", "-2.25", "99999999.99"]),
                         rng.choice([None, None, "", "a", "ab", "10", "abc"]), rng.choice([None, "", "a", "7"]),
                         rng.choice([None, True, False]), rng.choice([None, "DATE '2000-01-01'", "DATE '2024-02-29'", "DATE '1999-12-31'"]),
                         # (as strings: two TIMESTAMP literals in one VALUES list have no common type for the binder)
                         rng.choice([None, "2000-01-01 00:00:00", "2024-02-29 12:30:00", "1999-12-31 23:59:59"]),
                         rng.choice([None, "INTERVAL '1' DAY", "INTERVAL '2' MONTH", "INTERVAL '30' DAY", "INTERVAL '1' MONTH"]),
                         rng.choice([None, None, 0.0, 5.0, -1.5])])   # f2: NULLs of f and f2 fall on different rows
        for i in range(0, nrows, 40):
            vals = ", ".join("(" + ", ".join(_xlit(v) if j != 6 or v is None else v for j, v in enumerate(row)) + ")" for row in rows[i:i + 40])
            r = rl.sql(f"INSERT INTO p VALUES {vals}")
            if not r["ok"]:
                res["inconclusive"] = "insert failed: " + r.get("err", "")[:80]
                return res
        todo = list(FILTER_PROBES) if idx < 4 else []   # two memory and two disk workers run the directed probes first
        for it in range(n + len(todo)):
            if it < len(todo):
                ty, e = "bool", todo[it]
            else:
                ty, e = rng.choice(["int", "int", "str", "bool", "bool", "dbl", "dec", "big"]), None
            # a third of the boolean expressions end in a kernel that does not pass through AND / OR / NOT (those clear the raw
            # value under a NULL themselves): what a filter reads is then that kernel's own output
            if e is None:
                e = gen_x(rng, ty, force=rng.choice(["castb", "castb", "caseb", "like", "in", "between", "tcmp", "cmp", "scmp"]) if ty == "bool" and rng.random() < 0.35 else None)
            whole = rl.sql(f"SELECT id, {e} AS v FROM p")
            res["evals"] += 1
            if whole.get("dead"):
                res["inconclusive"] = "runner died"
                break
            if not whole["ok"] and whole.get("kind") in ("bind", "parse"):
                continue   # not an accepted expression
            ids = list(range(nrows)) if not whole["ok"] else rng.sample(range(nrows), min(nrows, 12))
            alone, alone_err = {}, {}
            for k in ids:
                r = rl.sql(f"SELECT {e} AS v FROM p WHERE id = {k}")
                res["evals"] += 1
                if r.get("dead"):
                    res["inconclusive"] = "runner died"
                    break
                if r["ok"]:
                    alone[k] = r["rows"][0][0] if r["rows"] else "<no row>"
                else:
                    alone_err[k] = (r.get("err") or "")[:80]
            if res["inconclusive"]:
                break
            res["judged"] += 1
            res["distinct"].append(h(e))
            if len(res["samples"]) < 2:
                res["samples"].append(e[:160])
            if not whole["ok"] and "no function" in (whole.get("err") or "") and "Null" not in (whole.get("err") or ""):
                # the binder (type checker) accepted the operand types; the evaluator has no kernel for them
                m = _re.search(r"no function (\w+\([^)]*\))", whole.get("err") or "")
                res["violations"].append(dict(signature="rowiso:accepted-expression-has-no-kernel:" + (m.group(1).replace(" ", "") if m else "?"), sql=e,
                                              what=f"SELECT {e}: accepted by the binder, fails at run time: {whole.get('err', '')[:100]}"))
                continue
            if whole["ok"] and ty == "bool" and not alone_err:
                # the same expression as a filter: WHERE e keeps exactly the rows whose value is TRUE, WHERE NOT e those whose value
                # is FALSE (a NULL row is in neither), whatever raw bits the kernels left under the NULL
                val = {row[0]: row[1] for row in whole["rows"]}
                for cond, truth in ((e, 1), (f"NOT {e}", 0)):
                    fr = rl.sql(f"SELECT id FROM p WHERE {cond}")
                    res["evals"] += 1
                    if not fr["ok"]:
                        res["violations"].append(dict(signature="rowiso:fails-as-filter", sql=e,
                                                      what=f"SELECT id FROM p WHERE {cond}: {fr.get('err', '')[:100]} {fr.get('panics')}; as a select item it evaluates"))
                        break
                    ids_f = sorted(row[0] for row in fr["rows"])
                    exp = sorted(k for k, v in val.items() if v is not None and int(v) == truth)
                    if ids_f != exp:
                        extra = [k for k in ids_f if k not in exp][:3]
                        lost = [k for k in exp if k not in ids_f][:3]
                        res["violations"].append(dict(signature="rowiso:filter-differs-from-projected-value", sql=e,
                                                      what=f"SELECT id FROM p WHERE {cond}: unexpected ids {extra} (projected value {[val.get(k) for k in extra]}), missing ids {lost}; rows {[rows[k] for k in (extra + lost)[:2]]}"))
                        break
                    res["filters_compared"] = res.get("filters_compared", 0) + 1
            if whole["ok"]:
                got = {row[0]: row[1] for row in whole["rows"]}
                res["rows_compared"] += len(alone)
                if alone_err:
                    k = sorted(alone_err)[0]
                    res["violations"].append(dict(signature="rowiso:batch-ok-row-fails", sql=e,
                                                  what=f"SELECT {e}: over the table it returns values, for row id={k} alone it fails ({alone_err[k]}); row {rows[k]}"))
                    continue
                bad = [(k, got.get(k), v) for k, v in alone.items() if got.get(k) != v]
                if bad:
                    k, g, v = bad[0]
                    res["violations"].append(dict(signature="rowiso:row-differs-in-batch", sql=e,
                                                  what=f"SELECT {e}: row id={k} is {g!r} over the table and {v!r} alone; row {rows[k]}"))
            else:
                if not alone_err:
                    res["violations"].append(dict(signature="rowiso:batch-fails-no-row-does", sql=e,
                                                  what=f"SELECT {e} over {nrows} rows fails ({whole.get('err', '')[:80]} {whole.get('panics')}); every row alone evaluates"))
                else:
                    res["both_fail"] += 1
    except Exception as ex:
        res["inconclusive"] = f"harness: {type(ex).__name__}: {ex}"
    finally:
        rl.close()
    return res


def sentinel(w):
    rl = RL("mem")
    try:
        sql = w["sql"]
        rl.sql("PRAGMA disable_optimizer")
        ref = rl.sql(sql)
        rl.sql("PRAGMA enable_optimizer")
        opt = rl.sql(sql)
        if ref["ok"] and opt["ok"] and ms(ref["rows"]) != ms(opt["rows"]):
            return [(w["signature"], f"{sql}: folded {opt['rows']} vs run-time {ref['rows']}")]
        if ref["ok"] != opt["ok"]:
            return [(w["signature"], f"{sql}: on {opt.get('rows', opt.get('err'))} off {ref.get('rows', ref.get('err'))}")]
        return []
    finally:
        rl.close()


def run(tier, seed):
    from concurrent.futures import ThreadPoolExecutor
    rep = Report("C14", tier, seed, "exploration")
    per, shards, nfold = (6000, 16, 40) if tier == "quick" else (400000, 16, 600)
    rep.rule = ("kernel leg: random (operator, operand types, batch length in {0,1,2,17,63,64,65,130,200}, NULL density, boundary "
                "pools, arbitrary raw bits under NULL) cases judged row by row against a scalar interpreter; SQL leg: random "
                "constant expressions with the optimizer on vs off; predicate leg: random boolean expressions (comparisons, LIKE, IS NULL, BETWEEN, IN, AND/OR/NOT) over a table with NULLs evaluated by a Python 3VL evaluator and by the engine in projection, WHERE and NOT-WHERE position; distinct non-trivial = distinct (operator, operand types) "
                "combinations judged plus distinct constant expressions that evaluated on both sides")
    combos, rows, cases = {}, 0, 0
    with ThreadPoolExecutor(max_workers=NCPU) as ex:
        for r in ex.map(shard, [(seed, per, s) for s in range(shards)]):
            if "error" in r:
                rep.inc(r["error"][:60])
                continue
            cases += r["cases"]
            rows += r["row_evaluations"]
            for k, v in r["combos"].items():
                combos[k] = combos.get(k, 0) + v
            for s in r["samples"]:
                rep.sample(s, limit=3)
            for v in r["violations"]:
                rep.add_violation(Violation("kernel:" + v["signature"], v["what"], dict(kernel=True)))
    # row-isolation leg: every kernel (all operators x all type pairs, the cast matrix, LIKE, EXTRACT, SUBSTRING,
    # REPLACE, REPEAT, CASE, vector distances): value of row i in a batch == value of row i alone; a batch fails
    # exactly when some row alone fails
    iso_per = 1500 if tier == "quick" else 60000
    iso = dict(cases=0, rows=0, ok=0, failing=0, combos={})
    with ThreadPoolExecutor(max_workers=NCPU) as ex:
        for r in ex.map(iso_shard, [(seed, iso_per, s) for s in range(shards)]):
            if "error" in r:
                rep.inc("iso leg: " + r["error"][:60])
                continue
            iso["cases"] += r["cases"]
            iso["rows"] += r["row_evaluations"]
            iso["ok"] += r["batches_ok"]
            iso["failing"] += r["batches_failing"]
            for k, v in r["combos"].items():
                iso["combos"][k] = iso["combos"].get(k, 0) + v
            for s_ in r["samples"]:
                rep.sample(dict(iso=s_), limit=9)
            for v in r["violations"]:
                rep.add_violation(Violation("kernel:" + v["signature"], v["what"], dict(kernel=True, driver="iso", seed=v["seed"], shard=v["shard"], index=v["index"], case=v["case"])))
    rep.coverage.update(iso_batches=iso["cases"], iso_rows_compared_with_the_row_alone=iso["rows"], iso_batches_returning_values=iso["ok"],
                        iso_batches_failing_as_a_whole=iso["failing"], iso_kernel_type_combinations=len(iso["combos"]),
                        iso_kernels=sorted({k.split("(")[0] for k in iso["combos"]}))
    rep.floor("row-isolation: kernel/type combinations returning values", len(iso["combos"]), 120)
    rep.floor("row-isolation: rows compared with the row alone", iso["rows"], iso_per * shards * 20)
    tot = dict(ok=0, fail=0)
    folds = set()
    for res in parallel_map(fold_case, [(seed, i, nfold) for i in range(16)]):
        rep.evaluations += res["evals"]
        tot["ok"] += res["both_ok"]
        tot["fail"] += res["both_fail"]
        folds.update(res["distinct"])
        if res["inconclusive"]:
            rep.inc(res["inconclusive"][:50])
        for s in res["samples"]:
            rep.sample(s, limit=5)
        for v in res["violations"]:
            rep.add_violation(Violation(v["signature"], v["what"], dict(sql=v["sql"], signature=v["signature"])))
    npred = 25 if tier == "quick" else 400
    pj = 0
    preds = set()
    for res in parallel_map(pred_case, [(seed, i, npred) for i in range(16)]):
        rep.evaluations += res["evals"]
        pj += res["judged"]
        preds.update(res["distinct"])
        if res["inconclusive"]:
            rep.inc("predicate leg: " + res["inconclusive"][:50])
        for s_ in res["samples"]:
            rep.sample(s_, limit=7)
        for v in res["violations"]:
            rep.add_violation(Violation(v["signature"], v["what"], dict(sql=v["sql"], signature=v["signature"], predicate=True)))
    nx = 20 if tier == "quick" else 250
    xs, xrows, xfail, xfilt = set(), 0, 0, 0
    for res in parallel_map(rowiso_case, [(seed, i, nx) for i in range(16)]):
        rep.evaluations += res["evals"]
        xrows += res["rows_compared"]
        xfilt += res.get("filters_compared", 0)
        xfail += res["both_fail"]
        xs.update(res["distinct"])
        if res["inconclusive"]:
            rep.inc("row-isolation SQL leg: " + res["inconclusive"][:50])
        for s_ in res["samples"]:
            rep.sample(dict(rowiso=s_), limit=11)
        for v in res["violations"]:
            rep.add_violation(Violation(v["signature"], v["what"], dict(sql=v["sql"], signature=v["signature"], rowiso=True)))
    rep.coverage.update(rowiso_sql_expressions_judged=len(xs), rowiso_sql_rows_compared_with_the_row_alone=xrows,
                        rowiso_sql_expressions_failing_over_the_table_and_for_some_row=xfail,
                        rowiso_sql_boolean_expressions_compared_as_filter=xfilt)
    rep.floor("row-isolation SQL leg: boolean expressions also run as a filter (WHERE e / WHERE NOT e)", xfilt, nx * 2)
    rep.floor("row-isolation SQL leg: expressions judged", len(xs), nx * 8)
    nd = 12 if tier == "quick" else 150
    dj = 0
    dset = set()
    for res in parallel_map(date_case, [(seed, i, nd) for i in range(16)]):
        rep.evaluations += res["evals"]
        dj += res["judged"]
        dset.update(res["distinct"])
        if res["inconclusive"]:
            rep.inc("date leg: " + res["inconclusive"][:50])
        for s_ in res["samples"]:
            rep.sample(s_, limit=12)
        for v in res["violations"]:
            rep.add_violation(Violation(v["signature"], v["what"], dict(sql=v["sql"], signature=v["signature"], date_leg=True)))
    rep.coverage["date_interval_statements_judged_against_the_calendar"] = dj
    rep.floor("date +/- interval statements judged against the calendar", dj, nd * 16)
    run_sentinels(rep, sentinel)
    rep.evaluations += rows + iso["rows"]
    rep.distinct = len(combos) + len(folds) + len(preds) + len(iso["combos"]) + len(xs)
    rep.coverage.update(kernel_cases=cases, kernel_row_evaluations=rows, operator_type_combinations=len(combos),
                        constant_expressions_equal_on_both_sides=tot["ok"], constant_expressions_failing_on_both_sides=tot["fail"])
    rep.floor("operator/type combinations judged", len(combos), 150)
    rep.floor("row evaluations", rows, per * shards * 10)
    rep.floor("constant expressions compared", tot["ok"], nfold * 4)
    rep.floor("boolean expressions judged in projection, WHERE and NOT position", pj, npred * 8)
    rep.coverage["predicate_expressions_judged"] = pj
    rep.assumptions = ["NaN and infinities are not used as operands of comparisons (SQL leaves them implementation-defined)",
                       "float results are compared by bits except for the sign of zero"]
    if tier == "thorough" and not os.environ.get("VERIF_OVERLAY"):
        import sanitize
        sanitize.overlay(rep, "asan", timeout=5400)
        sanitize.miri(rep, [["ops", seed, 60, sh] for sh in range(16)] + [["iso", seed, 10, sh] for sh in range(16)], timeout=2400, sig_prefix="kernel:")
    return rep.finish()


def replay(path):
    w = json.load(open(path))["witness"]
    if w.get("kernel"):
        if w.get("driver") == "iso":
            p = subprocess.run([RLV, "kern", "iso", str(w["seed"]), str(w["index"] + 1), str(w["shard"])], stdout=subprocess.PIPE, text=True)
            out = json.loads(p.stdout.strip().splitlines()[-1])
            for v in out["violations"]:
                print("VIOLATION-REPRO", v["signature"], v["what"])
            return 1 if out["violations"] else 0
        print("kernel violations are reproduced by: rlv kern ops <seed> <n> <shard> (deterministic)")
        return 1
    out = sentinel(w)
    for s in out:
        print("VIOLATION-REPRO", s)
    return 1 if out else 0
