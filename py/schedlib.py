"""Shared pieces of the concurrency checks (C08, C09, C10): running a scenario through
`rlv sched`, the online trace specification over version-manager events, helpers."""
import json
import os
import subprocess
import hashlib

from common import RLV, scratch_dir, rm
from sqlcase import norm_rows

BG = 4294967295
KIND = {0: "create", 1: "drop", 2: "add_rowset", 3: "del_rowset", 4: "add_dv", 5: "del_dv"}


def run_scenario(sc, timeout=300, env=None):
    """-> (result dict | None, error string)"""
    d = scratch_dir("sched")
    sc = dict(sc)
    sc["path"] = os.path.join(d, "db")
    f = os.path.join(d, "scenario.json")
    json.dump(sc, open(f, "w"))
    e = dict(os.environ)
    if env:
        e.update(env)
    try:
        p = subprocess.run([RLV, "sched", f], stdout=subprocess.PIPE, stderr=subprocess.PIPE, text=True,
                           timeout=timeout, env=e)
    except subprocess.TimeoutExpired:
        rm(d)
        return None, "wall-clock watchdog"
    finally:
        pass
    rm(d)
    if p.returncode != 0:
        return None, f"driver rc={p.returncode}: {p.stderr[-300:]}"
    try:
        return json.loads(p.stdout.strip().splitlines()[-1]), None
    except Exception as ex:
        return None, f"bad driver output: {ex}: {p.stdout[-200:]}"


def stmt_rows(h, i=-1):
    out = []
    for ch in h["stmts"][i]:
        out.extend(ch["rows"])
    return norm_rows(out)


def trace_spec(events):
    """Online checker of the version-manager trace specification.

    events: [seq, actor, name, args] in real order (emitted under the version manager's lock).
    Maintains epoch -> live row-sets and the multiset of pinned epochs; reports
      * a row-set selected for vacuum while a pinned epoch's snapshot still contains it,
      * an unpin of an epoch that is not pinned,
      * an epoch that does not advance by exactly one per commit.
    Returns (violations, stats)."""
    v = []
    snap = {}          # epoch -> frozenset((table,rowset))
    cur = set()
    last_epoch = None
    pins = {}
    stats = dict(commits=0, pins=0, vacuum_selects=0, max_concurrent_pins=0, vacuum_while_pinned_older=0, epochs=0)
    for ev in events:
        name, a = ev[2], ev[3]
        if name == "@reopen":
            # a new process-lifetime of the storage engine: epochs start again
            snap, cur, last_epoch, pins = {}, set(), None, {}
            continue
        if name == "commit":
            e = a[0]
            if last_epoch is not None and e != last_epoch + 1:
                v.append(("epoch-not-monotonic", f"commit published epoch {e} after {last_epoch}"))
            last_epoch = e
            ops = [(a[i], a[i + 1], a[i + 2]) for i in range(1, len(a), 3)]
            for k, t, i in ops:
                if k == 2:
                    cur.add((t, i))
                elif k == 3:
                    cur.discard((t, i))
            snap[e] = frozenset(cur)
            stats["commits"] += 1
            stats["epochs"] = len(snap)
        elif name == "pin":
            pins[a[0]] = pins.get(a[0], 0) + 1
            stats["pins"] += 1
            stats["max_concurrent_pins"] = max(stats["max_concurrent_pins"], sum(pins.values()))
        elif name == "unpin":
            if pins.get(a[0], 0) <= 0:
                v.append(("unpin-without-pin", f"epoch {a[0]} unpinned but not pinned"))
            else:
                pins[a[0]] -= 1
                if pins[a[0]] == 0:
                    del pins[a[0]]
        elif name == "vacuum_select":
            t, r = a[0], a[1]
            stats["vacuum_selects"] += 1
            for e, n in pins.items():
                if e in snap and (t, r) in snap[e]:
                    v.append(("vacuum-of-pinned-rowset", f"row-set {t}_{r} selected for removal while epoch {e} (pinned {n}x) still contains it"))
            if pins:
                stats["vacuum_while_pinned_older"] += 1
    return v, stats


def interleaving_signature(events):
    """Hash of the order of (actor, event name) pairs: identifies the interleaving that was observed."""
    s = ";".join(f"{e[1] if e[1] != BG else 'b'}:{e[2]}" for e in events if not str(e[2]).startswith("@txn.start"))
    return hashlib.sha1(s.encode()).hexdigest()[:16]
