"""Minimal PostgreSQL wire-protocol (v3, simple query) client, stdlib only - enough to drive
risinglight's pgwire server the way psql does: startup without authentication, 'Q' messages,
RowDescription / DataRow / CommandComplete / ErrorResponse / ReadyForQuery."""
import socket
import struct


class PgClosed(Exception):
    """the server closed the connection (a panicking connection task looks like this)"""


class PgConn:
    def __init__(self, port, host="127.0.0.1", timeout=120.0):
        self.s = socket.create_connection((host, port), timeout=timeout)
        self.s.settimeout(timeout)
        body = struct.pack("!i", 196608) + b"user\0postgres\0database\0postgres\0\0"
        self.s.sendall(struct.pack("!i", len(body) + 4) + body)
        self._until_ready()

    def _recv(self, n):
        buf = b""
        while len(buf) < n:
            chunk = self.s.recv(n - len(buf))
            if not chunk:
                raise PgClosed()
            buf += chunk
        return buf

    def _msg(self):
        head = self._recv(5)
        typ, ln = head[:1], struct.unpack("!i", head[1:])[0]
        return typ, self._recv(ln - 4)

    def _until_ready(self):
        out = dict(ok=True, rows=[], tag=None, err=None)
        while True:
            typ, body = self._msg()
            if typ == b"Z":
                return out
            if typ == b"D":
                n = struct.unpack("!h", body[:2])[0]
                pos, row = 2, []
                for _ in range(n):
                    ln = struct.unpack("!i", body[pos:pos + 4])[0]
                    pos += 4
                    if ln < 0:
                        row.append(None)
                    else:
                        row.append(body[pos:pos + ln].decode(errors="replace"))
                        pos += ln
                out["rows"].append(tuple(row))
            elif typ == b"C":
                out["tag"] = body.rstrip(b"\0").decode(errors="replace")
            elif typ == b"E":
                fields = {}
                for part in body.split(b"\0"):
                    if part:
                        fields[chr(part[0])] = part[1:].decode(errors="replace")
                out["ok"] = False
                out["err"] = fields.get("M", str(fields))
            # 'T', 'S', 'K', 'R', 'N', 'I': nothing to keep

    def query(self, sql):
        """-> dict(ok, rows (text cells, None for NULL), tag, err); raises PgClosed / socket.timeout"""
        q = sql.encode() + b"\0"
        self.s.sendall(b"Q" + struct.pack("!i", len(q) + 4) + q)
        return self._until_ready()

    def close(self):
        try:
            self.s.sendall(b"X" + struct.pack("!i", 4))
        except Exception:
            pass
        try:
            self.s.close()
        except Exception:
            pass
