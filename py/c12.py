"""C12 - ORDER BY, LIMIT and OFFSET are honoured on every storage layout.

Metamorphic monitor: on disk tables built by several inserts/deletes/compactions (and on the
memory engine), for a base query q and a key list K the check runs q, q ORDER BY K,
q ORDER BY K LIMIT n OFFSET m and q LIMIT n OFFSET m and judges them against each other with an
independent comparator (NULL smallest; asc/desc per key)."""
import random

from common import Report, Violation, parallel_map, h, run_sentinels, cell_key
from gen import Col, Table, lit, gen_value
from model import gen_pred
from sqlcase import RL, ms, is_sorted

LAYOUTS = [
    dict(block=32, rowset=150, crc=True, first_key=True),
    dict(block=64, rowset=300, crc=False, first_key=True),
    dict(block=256, rowset=3000, crc=True, first_key=True),
    dict(block=16384, rowset=256 << 20, crc=True, first_key=True),
]
TYPES = ("INT", "BIGINT", "SMALLINT", "VARCHAR", "BOOLEAN", "DOUBLE", "DATE", "DECIMAL(10,2)")


def make_table(rng):
    n = rng.randint(2, 5)
    cols = [Col("pqrst"[i], rng.choice(TYPES)) for i in range(n)]
    shape = rng.choice(["pk", "pk", "composite", "none"])
    ints = [c for c in cols if c.typ in ("INT", "BIGINT", "SMALLINT", "VARCHAR", "DATE")]
    pk_clause = ""
    if shape == "pk" and ints:
        c = rng.choice(ints)
        c.pk = True
        c.nullable = False
    elif shape == "composite" and len(ints) >= 2:
        a, b = rng.sample(ints, 2)
        a.nullable = b.nullable = False
        a.ckey = b.ckey = True
        pk_clause = f", PRIMARY KEY({a.name}, {b.name})"
    t = Table("t", cols)
    t.pk_clause = pk_clause
    return t


def ddl(t):
    parts = []
    for c in t.cols:
        s = f"{c.name} {c.typ}"
        if c.pk:
            s += " PRIMARY KEY"
        elif not c.nullable:
            s += " NOT NULL"
        parts.append(s)
    return f"CREATE TABLE t({', '.join(parts)}{t.pk_clause})"


def sub_multiset(a, b):
    """a is a sub-multiset of b"""
    from collections import Counter
    ca, cb = Counter(map(tuple, a)), Counter(map(tuple, b))
    return all(cb[k] >= v for k, v in ca.items())


def run_case(args):
    seed, idx, nq = args
    rng = random.Random(f"c12-{seed}-{idx}")
    engine = "mem" if rng.random() < 0.15 else "disk"
    layout = rng.choice(LAYOUTS)
    t = make_table(rng)
    res = dict(seed=seed, idx=idx, violations=[], evals=0, nontrivial=[], inconclusive=None, sample=None,
               rowsets_hint=0, feats={})
    rl = RL(engine, layout)
    stmts = [ddl(t)]

    def fail(sig, what, q):
        res["violations"].append(dict(signature=sig, what=what))
        res["witness"] = dict(seed=seed, idx=idx, nq=nq, statements=stmts + [q])

    try:
        r = rl.sql(stmts[0])
        if not r["ok"]:
            res["inconclusive"] = "create rejected: " + r.get("err", "")[:50]
            return res
        # populate with several inserts / deletes / compactions; unique keys
        used = set()
        keycols = [i for i, c in enumerate(t.cols) if c.pk or getattr(c, "ckey", False)]
        # a third of the keyed tables hold duplicate key values (PRIMARY KEY is a sort key here, uniqueness is not
        # enforced): ORDER BY <key>, <other column> then needs a real sort inside every key group
        dup_keys = bool(keycols) and rng.random() < 0.35
        lo, hi = (-3, 9) if dup_keys else (-30, 120)
        nins = rng.randint(1, 6)
        for _ in range(nins):
            rows = []
            for _ in range(rng.choice([1, 3, 8, 20, 60])):
                row = [gen_value(rng, c, null_p=0.2) for c in t.cols]
                for i in keycols:
                    c = t.cols[i]
                    if c.typ in ("INT", "BIGINT"):
                        row[i] = rng.randint(lo, hi)
                    elif c.typ == "SMALLINT":
                        row[i] = rng.randint(lo, hi)
                    elif c.typ == "VARCHAR":
                        row[i] = rng.choice("abcdefgh"[:3 if dup_keys else 8]) + str(rng.randint(0, 3 if dup_keys else 40))
                if keycols:
                    k = tuple(row[i] for i in keycols)
                    if (k in used and not dup_keys) or any(x is None for x in k):
                        continue
                    used.add(k)
                rows.append(row)
            if not rows:
                continue
            vals = ", ".join("(" + ", ".join(lit(v, c.typ) for v, c in zip(x, t.cols)) + ")" for x in rows)
            s = f"INSERT INTO t VALUES {vals}"
            stmts.append(s)
            r = rl.sql(s)
            if not r["ok"]:
                res["inconclusive"] = "insert failed: " + r.get("err", "")[:60]
                return res
            if rng.random() < 0.3:
                s = f"DELETE FROM t WHERE {gen_pred(rng, t).sql}"
                stmts.append(s)
                rl.sql(s)
            if engine == "disk" and rng.random() < 0.25:
                stmts.append("<tick>")
                rl.cmd({"op": "tick", "secs": 1})
        res["rowsets_hint"] = nins
        # one INSERT that reaches storage in several chunks (the executor cuts at 1024 rows): the first chunk arrives in key order,
        # the later ones hold smaller keys and are in no order - whatever the write path does with a chunk (sort it, take it for
        # sorted), the row-set must come out sorted on the key as a whole. (Drawn from a stream of its own.)
        rng2 = random.Random(f"c12b-{seed}-{idx}")
        if keycols and rng2.random() < 0.3 and t.cols[keycols[0]].typ in ("INT", "BIGINT", "SMALLINT", "VARCHAR"):
            nbig = rng2.choice([1030, 1500, 2100])
            first = list(range(5000, 5000 + 1024))
            rest = rng2.sample(range(1000, 5000), nbig - 1024)
            if rng2.random() < 0.3:
                rest.sort()   # every chunk sorted on its own, the chunks overlapping
            rows = []
            for kv in first + rest:
                row = [gen_value(rng2, c, null_p=0.2) for c in t.cols]
                for i in keycols:
                    c = t.cols[i]
                    if i == keycols[0]:
                        row[i] = kv if c.typ != "VARCHAR" else f"k{kv:05d}"
                    elif c.typ in ("INT", "BIGINT", "SMALLINT"):
                        row[i] = rng2.randint(lo, hi)
                    elif c.typ == "VARCHAR":
                        row[i] = rng2.choice("abcdefgh") + str(rng2.randint(0, 40))
                    elif row[i] is None:
                        row = None
                        break
                if row is not None:
                    rows.append(row)
            vals = ", ".join("(" + ", ".join(lit(v, c.typ) for v, c in zip(x, t.cols)) + ")" for x in rows)
            s = f"INSERT INTO t VALUES {vals}"
            stmts.append(s)
            r = rl.sql(s, timeout=120)
            if not r["ok"]:
                res["inconclusive"] = "big insert failed: " + r.get("err", "")[:60]
                return res
            res["feats"]["multi-chunk-insert"] = 1
            if engine == "disk" and rng2.random() < 0.3:
                stmts.append("<tick>")
                rl.cmd({"op": "tick", "secs": 1})
        if rng.random() < 0.3:
            # planned with a wrong row estimate (the optimizer may only use it to choose between equivalent plans)
            s = f"SET mock_rowcount_t = {rng.choice([0, 1, 3, 10, 1000])}"
            stmts.append(s)
            rl.sql(s)
            res["feats"]["mocked-row-estimate"] = 1
        for qi in range(nq):
            # base query
            where = f" WHERE {gen_pred(rng, t).sql}" if rng.random() < 0.4 else ""
            ncols = len(t.cols)
            proj_idx = list(range(ncols)) if rng.random() < 0.5 else rng.sample(range(ncols), rng.randint(1, ncols))
            exprs = [t.cols[i].name for i in proj_idx]
            types = [t.cols[i].typ for i in proj_idx]
            if rng.random() < 0.25:
                ints = [c.name for c in t.cols if c.typ in ("INT", "BIGINT")]
                if ints:
                    exprs.append(f"({rng.choice(ints)} + 1)")
                    types.append("INT")
            sel = ", ".join(f"{e} AS c{i}" for i, e in enumerate(exprs))
            base = f"SELECT {sel} FROM t{where}"
            keyable = [i for i, ty in enumerate(types)]
            nk = rng.randint(1, min(3, len(keyable)))
            keys = [(i, rng.random() < 0.4) for i in rng.sample(keyable, nk)]
            # bias: order by the primary key / a key prefix
            pkpos = [j for j, i in enumerate(proj_idx) if i in keycols]
            if pkpos and rng.random() < 0.5:
                keys = [(pkpos[0], rng.random() < 0.3)] + [k for k in keys if k[0] != pkpos[0]][: rng.randint(0, 1)]
                if dup_keys and len(keys) == 1 and len(keyable) > 1:
                    # the key first, then a column that has to order the rows of one key group
                    keys.append((rng.choice([i for i in keyable if i != pkpos[0]]), rng.random() < 0.4))
                if dup_keys and len(keys) > 1:
                    res["feats"]["order-by-duplicate-key-then-column"] = res["feats"].get("order-by-duplicate-key-then-column", 0) + 1
            okeys = ", ".join(f"c{i}{' DESC' if d else ''}" for i, d in keys)
            if rng.random() < 0.2:
                # positions instead of names: ORDER BY 2 DESC, 1
                okeys = ", ".join(f"{i + 1}{' DESC' if d else ''}" for i, d in keys)
                res["feats"]["order-by-position"] = res["feats"].get("order-by-position", 0) + 1
            r0 = rl.sql(base)
            res["evals"] += 1
            if r0.get("dead"):
                res["inconclusive"] = "runner died on base query"
                break
            if not r0["ok"]:
                res["inconclusive"] = "base query failed: " + r0.get("err", "")[:60]
                continue
            N = len(r0["rows"])
            q1 = f"{base} ORDER BY {okeys}"
            r1 = rl.sql(q1)
            res["evals"] += 1
            if not r1["ok"]:
                fail("ordered-query-fails", f"{q1}: {r1.get('kind')} {r1.get('err', '')[:100]} {r1.get('panics')}", q1)
                break
            if ms(r1["rows"]) != ms(r0["rows"]):
                fail("order-by-not-a-permutation", f"{q1}: {len(r1['rows'])} rows vs {N} unordered", q1)
                break
            if not is_sorted(r1["rows"], keys):
                fail("order-by-not-sorted", f"{q1}: keys {[tuple(x[i] for i, _ in keys) for x in r1['rows'][:10]]}", q1)
                break
            res["feats"]["order"] = res["feats"].get("order", 0) + 1
            if N > 1:
                res["nontrivial"].append(h([stmts, q1]))
            # limit / offset
            n = rng.choice([None, 0, 1, 2, N - 1, N, N + 5, 3])
            m = rng.choice([None, 0, 1, N - 1, N, N + 5, 2])
            if n is not None and n < 0:
                n = 0
            if m is not None and m < 0:
                m = 0
            if n is None and m is None:
                n = 1
            tail = (f" LIMIT {n}" if n is not None else "") + (f" OFFSET {m}" if m is not None else "")
            mm = m or 0
            want_n = max(0, N - mm) if n is None else min(n, max(0, N - mm))
            q2 = f"{base} ORDER BY {okeys}{tail}"
            r2 = rl.sql(q2)
            res["evals"] += 1
            if r2.get("dead"):
                fail("ordered-limit-aborts", f"{q2}: runner died: {r2['err'][:100]}", q2)
                break
            if not r2["ok"]:
                fail("ordered-limit-fails" + (":offset-without-limit" if n is None else ""),
                     f"{q2}: {r2.get('kind')} {r2.get('err', '')[:100]} {r2.get('panics')}", q2)
                break
            kseq = lambda rows: [tuple(x[i] for i, _ in keys) for x in rows]
            if kseq(r2["rows"]) != kseq(r1["rows"])[mm:mm + want_n] or not sub_multiset(r2["rows"], r0["rows"]):
                fail("ordered-limit-wrong-slice", f"{q2}: keys {kseq(r2['rows'])[:8]} expected {kseq(r1['rows'])[mm:mm + want_n][:8]}", q2)
                break
            res["feats"]["order+limit"] = res["feats"].get("order+limit", 0) + 1
            q3 = f"{base}{tail}"
            r3 = rl.sql(q3)
            res["evals"] += 1
            if not r3["ok"]:
                fail("limit-fails", f"{q3}: {r3.get('kind')} {r3.get('err', '')[:100]} {r3.get('panics')}", q3)
                break
            if len(r3["rows"]) != want_n or not sub_multiset(r3["rows"], r0["rows"]):
                fail("limit-wrong-count", f"{q3}: {len(r3['rows'])} rows, expected {want_n} of {N}", q3)
                break
            res["feats"]["limit"] = res["feats"].get("limit", 0) + 1
            # ORDER BY key columns that are NOT in the select list (unique keys => a total order):
            # must equal the same query with the keys projected, keys stripped
            if keycols:
                desc = rng.random() < 0.25
                kn = [t.cols[i].name for i in keycols]
                ob = ", ".join(f"{k}{' DESC' if desc else ''}" for k in kn)
                hidden = [e for e, i in zip(exprs, proj_idx + [None] * len(exprs)) if i not in keycols] or [f"({kn[0]} IS NULL)"]
                hsel = ", ".join(f"{e} AS h{i}" for i, e in enumerate(hidden))
                q4 = f"SELECT {hsel} FROM t{where} ORDER BY {ob}"
                q5 = f"SELECT {hsel}, {', '.join(f'{k} AS k{i}' for i, k in enumerate(kn))} FROM t{where} ORDER BY {', '.join(f'k{i}' + (' DESC' if desc else '') for i in range(len(kn)))}"
                r4, r5 = rl.sql(q4), rl.sql(q5)
                res["evals"] += 2
                if r4["ok"] and r5["ok"]:
                    want = [list(x[:len(hidden)]) for x in r5["rows"]]
                    if not is_sorted(r5["rows"], [(len(hidden) + i, desc) for i in range(len(kn))]):
                        fail("order-by-not-sorted", f"{q5}: keys {[tuple(x[len(hidden):]) for x in r5['rows'][:10]]}", q5)
                        break
                    # rows with equal keys may come in any order (key values are not unique in a third of the tables): the two
                    # sequences are compared tie group by tie group, as multisets within a group
                    nh, pos, same = len(hidden), 0, len(r4["rows"]) == len(r5["rows"])
                    while same and pos < len(r5["rows"]):
                        end = pos
                        while end < len(r5["rows"]) and tuple(r5["rows"][end][nh:]) == tuple(r5["rows"][pos][nh:]):
                            end += 1
                        same = ms([tuple(x) for x in r4["rows"][pos:end]]) == ms([tuple(x[:nh]) for x in r5["rows"][pos:end]])
                        pos = end
                    if not same:
                        fail("order-by-unprojected-key-wrong-sequence", f"{q4}: {r4['rows'][:8]} expected {want[:8]}", q4)
                        break
                    res["feats"]["order-by-unprojected-key"] = res["feats"].get("order-by-unprojected-key", 0) + 1
                elif r4["ok"] != r5["ok"]:
                    fail("ordered-query-fails", f"{q4 if not r4['ok'] else q5}: {(r4 if not r4['ok'] else r5).get('err', '')[:100]}", q4)
                    break
        res["sample"] = dict(engine=engine, layout=layout, ddl=stmts[0], inserts=len([s for s in stmts if s.startswith("INSERT")]))
    except Exception as e:
        res["inconclusive"] = f"harness: {type(e).__name__}: {e}"
    finally:
        rl.close()
    return res


def join_case(args):
    """ORDER BY above a join of inputs that arrive sorted (derived tables with ORDER BY, or keyed disk tables): the planner may
    run a merge join and drop the sort when it believes the join output already has the order. Oracle: the ordered result is
    sorted on its keys and is a permutation of the same join without ORDER BY."""
    seed, idx, nq = args
    rng = random.Random(f"c12-join-{seed}-{idx}")
    res = dict(violations=[], evals=0, judged=0, nontrivial=[], inconclusive=None, sample=None, merge_joins=0)
    engine = "mem" if idx % 4 == 0 else "disk"
    rl = RL(engine, rng.choice(LAYOUTS))
    try:
        keyed = engine == "disk" and rng.random() < 0.5
        dom = rng.choice([[1, 2, 3], [1, 1, 2, 3, 3, None], list(range(8)), [5]])
        for name in ("a", "b"):
            rl.sql(f"CREATE TABLE {name}(k INT{' PRIMARY KEY' if keyed else ''}, v INT, w VARCHAR)")
            doms = [x for x in dom if x is not None] if keyed else dom
            for _ in range(rng.randint(1, 3)):
                rows = [(rng.choice(doms), rng.choice([None, -11, -10, 0, 7, 20]), rng.choice(["x", "y", None])) for _ in range(rng.choice([2, 5, 12, 40]))]
                r = rl.sql(f"INSERT INTO {name} VALUES " + ", ".join("(" + ", ".join("NULL" if c is None else (repr(c) if isinstance(c, str) else str(c)) for c in row) + ")" for row in rows))
                if not r["ok"]:
                    res["inconclusive"] = "insert failed: " + r.get("err", "")[:50]
                    return res
        for _ in range(nq):
            def side(name, alias):
                if keyed and rng.random() < 0.5:
                    return f"{name} AS {alias}"
                order = rng.choice(["k", "k, v", "k, v, w", "k DESC", "k, v DESC"])
                return f"(SELECT k, v, w FROM {name} ORDER BY {order}) AS {alias}"
            jt = rng.choice(["JOIN", "JOIN", "LEFT JOIN", "RIGHT JOIN", "FULL JOIN"])
            base = f"SELECT x.k AS c0, x.v AS c1, y.k AS c2, y.v AS c3, y.w AS c4 FROM {side('a', 'x')} {jt} {side('b', 'y')} ON x.k = y.k"
            if rng.random() < 0.2:
                base += f" WHERE {rng.choice(['x.v', 'y.v'])} {rng.choice(['<', '>=', '<>'])} {rng.choice([0, 7, -10])}"
            keys = rng.choice([[2, 3], [2, 3, 4], [0, 1], [2], [0], [0, 3], [3], [2, 1], [1, 3]])
            descs = [rng.random() < 0.15 for _ in keys]
            q = base + " ORDER BY " + ", ".join(f"c{k}{' DESC' if d else ''}" for k, d in zip(keys, descs))
            r0, r1 = rl.sql(base), rl.sql(q)
            res["evals"] += 2
            if r0.get("dead") or r1.get("dead"):
                res["inconclusive"] = "runner died"
                break
            if not (r0["ok"] and r1["ok"]):
                if r0["ok"] != r1["ok"]:
                    res["violations"].append(dict(signature="join-order:ordered-query-fails", what=f"{q}: {(r1 if not r1['ok'] else r0).get('err', '')[:100]} {(r1 if not r1['ok'] else r0).get('panics')}"))
                continue
            res["judged"] += 1
            e = rl.sql("EXPLAIN " + q)
            if e["ok"] and "MergeJoin" in str(e["rows"]):
                res["merge_joins"] += 1
            if ms(r0["rows"]) != ms(r1["rows"]):
                res["violations"].append(dict(signature="join-order:not-a-permutation", what=f"{q}: {len(r1['rows'])} rows, without ORDER BY {len(r0['rows'])}"))
            elif not is_sorted(r1["rows"], list(zip(keys, descs))):
                res["violations"].append(dict(signature="join-order:not-sorted", what=f"{q}: keys {[tuple(x[k] for k in keys) for x in r1['rows'][:10]]}"))
            elif len(r1["rows"]) > 1:
                res["nontrivial"].append(h([idx, q]))
            res["sample"] = q
    except Exception as ex:
        res["inconclusive"] = f"harness: {type(ex).__name__}: {ex}"
    finally:
        rl.close()
    if res["violations"]:
        res["witness"] = dict(join_leg=True, seed=seed, idx=idx, nq=nq)
    return res


def sentinel(w):
    rl = RL("disk", LAYOUTS[0])
    out = []
    try:
        for s in w["statements"][:-1]:
            if s == "<tick>":
                rl.cmd({"op": "tick", "secs": 1})
            else:
                rl.sql(s)
        r = rl.sql(w["statements"][-1])
        if not r["ok"]:
            out.append((w.get("signature", "ordered-limit-fails"), f"{w['statements'][-1]}: {r.get('err')}"))
    finally:
        rl.close()
    return out


def run(tier, seed):
    rep = Report("C12", tier, seed, "exploration")
    n, nq = (400, 6) if tier == "quick" else (6000, 8)
    rep.rule = ("tables with single / composite / no primary key built by 1-6 inserts with deletes and compactions on 4 disk "
                "layouts (15% memory engine); per base query q: q, q ORDER BY K, q ORDER BY K LIMIT/OFFSET, q LIMIT/OFFSET; "
                "distinct non-trivial = distinct (table history, ordered query) with more than one result row")
    feats = {}
    for res in parallel_map(run_case, [(seed, i, nq) for i in range(n)]):
        rep.evaluations += res["evals"]
        rep.distinct.update(res["nontrivial"])
        for k, v in res["feats"].items():
            feats[k] = feats.get(k, 0) + v
        if res["inconclusive"]:
            rep.inc(res["inconclusive"][:50])
        if res["sample"]:
            rep.sample(res["sample"], limit=4)
        for v in res["violations"]:
            rep.add_violation(Violation(v["signature"], v["what"], res.get("witness")))
    nj = 96 if tier == "quick" else 3000
    jj = mj = 0
    for res in parallel_map(join_case, [(seed, i, 8) for i in range(nj)]):
        rep.evaluations += res["evals"]
        rep.distinct.update(res["nontrivial"])
        jj += res["judged"]
        mj += res["merge_joins"]
        if res["inconclusive"]:
            rep.inc("join leg: " + res["inconclusive"][:50])
        if res["sample"]:
            rep.sample(dict(join_leg=res["sample"]), limit=6)
        for v in res["violations"]:
            rep.add_violation(Violation(v["signature"], v["what"], res.get("witness")))
    rep.coverage.update(join_leg_ordered_joins_judged=jj, join_leg_plans_with_a_merge_join=mj)
    rep.floor("join leg: ordered joins judged", jj, nj * 4)
    rep.floor("join leg: plans with a merge join", mj, nj // 4)
    run_sentinels(rep, sentinel)
    rep.coverage.update(oracle_checks=feats)
    rep.floor("ordered queries judged", feats.get("order", 0), n * 2)
    rep.floor("ordered limit/offset slices judged", feats.get("order+limit", 0), n)
    rep.assumptions = ["reference comparator: NULL smallest, ascending unless DESC", "ties may permute: slices are compared on the key columns"]
    return rep.finish()


def replay(path):
    import json
    w = json.load(open(path))["witness"]
    res = (join_case if w.get("join_leg") else run_case)((w["seed"], w["idx"], w["nq"]))
    for v in res["violations"]:
        print("VIOLATION-REPRO", v)
    return 1 if res["violations"] else 0
