"""C05 - the in-memory and on-disk engines are observationally equivalent.

The same statement sequence (DDL, multi-statement INSERT/DELETE, compaction passes on disk,
generated queries) runs on a memory database and on disk databases with several layouts, each in
a fresh runner process; outcome class and row multisets (sequence on ORDER BY keys) must agree."""
import random

from common import Report, Violation, parallel_map, h, run_sentinels, panic_site
from gen import gen_schema, setup_statements, QueryGen, lit
from model import gen_pred
from sqlcase import RL, DISK_LAYOUTS, ms, ordered_equal

TYPES = ("INT", "BIGINT", "SMALLINT", "BOOLEAN", "VARCHAR", "DOUBLE", "DECIMAL(10,2)", "DATE")
FEATURES = dict(full_join=False, not_in_sub=False, scalar_sub=True, like=True, bool_col_cond=False,
                offset_no_limit=False, case_no_else=True, corr_in_sub=False, mixed_int=True, null_lit=True)


def err_class(e):
    """Coarse, stable class of an error text (used in finding signatures)."""
    import re
    m = re.search(r"no function (\S+?)\((.*?)\)", e)
    if m:
        return "no-function:null-operand" if "NULL" in m.group(2) else f"no-function:{m.group(1)}({m.group(2)})"
    return re.sub(r"[0-9]+", "N", e)[:50]


def outcome(r):
    if r.get("dead"):
        return "dead"
    return "ok" if r["ok"] else "err"


def run_case(args):
    seed, idx, nq, layouts = args
    rng = random.Random(f"c05-{seed}-{idx}")
    tables = gen_schema(rng, types=TYPES, pk_types=("INT", "BIGINT", "VARCHAR", "SMALLINT", "DATE"), max_cols=5, pk_p=0.6)
    uniq = random.Random(f"c05-uniq-{seed}-{idx}").random() >= 0.3
    stmts = [(s, None) for s in setup_statements(rng, tables, max_rows=rng.choice([6, 12, 40]), max_stmts=5, wide_pk=True, unique_pk=uniq)]
    # identical (mocked) statistics on every engine: cost-based plan choice is C01's subject; here it
    # must not differ between the engines, so that only storage-specific planning and layout do
    for t in tables:
        stmts.append((f"SET mock_rowcount_{t.name} = {len(t.rows)}", None))
    # (ORDER BY a primary key that is not selected determines the whole sequence only when keys are unique)
    g = QueryGen(rng, tables, dict(FEATURES, order_hidden_pk=uniq))
    # interleave queries, deletes, further inserts and compaction passes
    for _ in range(nq):
        x = rng.random()
        if x < 0.12 and tables:
            t = rng.choice(tables)
            stmts.append((f"DELETE FROM {t.name} WHERE {gen_pred(rng, t).sql}", None))
        elif x < 0.2:
            stmts.append(("<tick>", None))
        elif x < 0.3 and tables:
            t = rng.choice(tables)
            if t.pk() is None:
                from gen import gen_rows
                rows = gen_rows(rng, t, n=rng.randint(1, 4))
                if rows:
                    vals = ", ".join("(" + ", ".join(lit(v, c.typ) for v, c in zip(r, t.cols)) + ")" for r in rows)
                    stmts.append((f"INSERT INTO {t.name} VALUES {vals}", None))
        elif x < 0.36 and tables:
            # INSERT ... SELECT from the table itself (same types), often with an empty or
            # partial source
            t = rng.choice(tables)
            if t.pk() is None:
                w = rng.choice(["false", "true", gen_pred(rng, t).sql, gen_pred(rng, t).sql])
                stmts.append((f"INSERT INTO {t.name} SELECT * FROM {t.name} WHERE {w}", None))
        else:
            q = g.query()
            stmts.append((q.sql, q))
    plain = [(sql, (q.order if q else None), (sorted(q.tags) if q else None)) for sql, q in stmts]
    # key-range probes (a stream of their own, appended after everything else): for key values the table holds - duplicated ones
    # first, their runs may cross a block boundary - every comparison of the key with that value; on disk these become range scans
    # that seek through the block index, in memory a plain filter
    rng2 = random.Random(f"c05b-{seed}-{idx}")
    for t in tables:
        kc = t.pk()
        if kc is None or not t.rows or kc.typ not in ("INT", "BIGINT", "SMALLINT", "VARCHAR"):
            continue
        ki = t.cols.index(kc)
        vals = [r[ki] for r in t.rows if r[ki] is not None]
        dups = sorted({v for v in vals if vals.count(v) > 1}, key=str)
        pick = rng2.sample(dups, min(3, len(dups))) + rng2.sample(sorted(set(vals), key=str), min(2, len(set(vals))))
        for v in pick:
            op = rng2.choice([">=", "=", ">=", "=", ">", "<=", "<"])
            plain.append((f"SELECT * FROM {t.name} WHERE {kc.name} {op} {lit(str(v) if kc.typ == 'VARCHAR' else v, kc.typ)}", None, ["pk-range-probe", "pk-range-probe:duplicated-key" if v in dups else "pk-range-probe:single-key"]))
    if rng2.random() < 0.3:
        # a table of its own whose INT key has long runs of equal values inside one row-set (runs that end and start blocks),
        # probed with every comparison at every key value, between deletes and a compaction pass
        nk = rng2.choice([3, 6, 12])
        nrows = rng2.choice([40, 90, 200])
        keys = [rng2.randrange(nk) * rng2.choice([1, 1, 3]) for _ in range(nrows)]
        plain.append(("CREATE TABLE dk(k INT PRIMARY KEY, v INT)", None, None))
        cut = rng2.choice([nrows, nrows, nrows // 2])
        for part in (list(enumerate(keys))[:cut], list(enumerate(keys))[cut:]):
            if part:
                plain.append(("INSERT INTO dk VALUES " + ", ".join(f"({kv}, {i})" for i, kv in part), None, None))
        plain.append((f"SET mock_rowcount_dk = {nrows}", None, None))
        for rnd in range(2):
            for kv in sorted(set(keys)):
                for op in rng2.sample([">=", "=", ">", "<=", "<"], 2) + [">="]:
                    plain.append((f"SELECT * FROM dk WHERE k {op} {kv}", None, ["dup-key-run-probe"]))
            if rnd == 0:
                plain.append((f"DELETE FROM dk WHERE v % {rng2.choice([2, 3, 7])} = 0", None, None))
                if rng2.random() < 0.5:
                    plain.append(("<tick>", None, None))
    res = execute(plain, layouts)
    res.update(idx=idx, seed=seed)
    if res["violations"]:
        res["witness"] = dict(seed=seed, idx=idx, nq=nq, layouts=layouts, statements=plain)
    res["sample"] = [s for s, _ in stmts[:3]] + [s for s, q in stmts if q][:2]
    return res


def execute(stmts, layouts):
    """stmts: [(sql, order or None, tags or None)]"""
    res = dict(violations=[], evals=0, nontrivial=[], inconclusive=None, tags={})
    dbs = []
    try:
        dbs.append(("mem", RL("mem")))
        for li in layouts:
            dbs.append((f"disk{li}", RL("disk", DISK_LAYOUTS[li])))
        for sql, order, tags in stmts:
            if sql == "<tick>":
                for name, db in dbs[1:]:
                    db.cmd({"op": "tick", "secs": 1})
                continue
            outs = [(name, db.sql(sql)) for name, db in dbs]
            res["evals"] += 1
            ref_name, ref = outs[0]
            if any(o.get("dead") for _, o in outs):
                # an aborting/hanging statement: compare the class only
                cls = {outcome(o) for _, o in outs}
                if len(cls) > 1:
                    res["violations"].append(dict(signature="outcome-class:dead", what=f"{sql[:200]}: {[(n, outcome(o)) for n, o in outs]}", sql=sql))
                res["inconclusive"] = "runner died (same on all engines)" if len(cls) == 1 else None
                break
            for name, o in outs[1:]:
                if outcome(o) != outcome(ref):
                    pan = panic_site((o.get("panics") or ref.get("panics"))[0]) if (o.get("panics") or ref.get("panics")) else ""
                    if not pan:
                        pan = err_class(o.get("err") or ref.get("err") or "")
                    if pan.endswith("column-not-found-from-input"):
                        # where the plan of the failing engine refers to a column its input does not produce: below a subquery
                        # form the optimizer left in the plan (the open C17 finding, whose consequence this panic then is) or
                        # somewhere else (located by the harness's plan walker, as C01 / C17 do)
                        try:
                            from c17 import unresolved_class
                            failing = [db for (nm, db) in dbs if nm == (name if not o["ok"] else ref_name)][0]
                            pc = failing.cmd({"op": "plancheck", "sql": sql}, timeout=60)
                            if any(i.startswith(("contains-in-subquery", "contains-exists", "contains-apply")) for i in pc.get("issues", [])):
                                pan += "@below-unresolved-subquery-form"
                            else:
                                pan += "@" + unresolved_class(pc.get("unresolved") or [])
                        except Exception:
                            pan += "@unlocated"
                    res["violations"].append(dict(
                        signature=f"outcome-class-differs:{pan.replace('/repo/', '')}",
                        what=f"{sql[:300]}: mem={outcome(ref)} {ref.get('err', '')[:80]} vs {name}={outcome(o)} {o.get('err', '')[:80]}", sql=sql))
                    break
                if not ref["ok"]:
                    continue
                same = ordered_equal(ref["rows"], o["rows"], order) if order else ms(ref["rows"]) == ms(o["rows"])
                if not same:
                    res["violations"].append(dict(
                        signature="rows-differ:" + ("ordered" if (order and ms(ref["rows"]) == ms(o["rows"])) else "multiset"),
                        what=f"{sql[:300]}: mem {ref['rows'][:5]} vs {name} {o['rows'][:5]}", sql=sql))
                    break
            if res["violations"]:
                break
            if tags is not None and ref["ok"] and ref.get("rows"):
                res["nontrivial"].append(h(sql))
                for t in tags:
                    res["tags"][t] = res["tags"].get(t, 0) + 1
    except Exception as e:
        res["inconclusive"] = f"harness: {type(e).__name__}: {e}"
    finally:
        for _, db in dbs:
            db.close()
    return res


def sentinel(w):
    res = execute([tuple(x) for x in w["statements"]], w["layouts"])
    return [(v["signature"], v["what"]) for v in res["violations"]]


def run(tier, seed):
    rep = Report("C05", tier, seed, "exploration")
    if tier == "quick":
        n, nq, layouts = 240, 25, [0, 1, 2]
    else:
        n, nq, layouts = 2500, 30, [0, 1, 2, 3, 4]
    rep.rule = ("statement sequences (setup with several INSERTs per table, DELETE WHERE p, compaction passes, generated "
                "queries) executed on memory and on each disk layout in separate processes; distinct non-trivial = "
                "distinct query texts that succeeded with a non-empty result on the memory engine")
    tags = {}
    for res in parallel_map(run_case, [(seed, i, nq, layouts) for i in range(n)]):
        rep.evaluations += res["evals"] * (1 + len(layouts))
        rep.distinct.update(res["nontrivial"])
        for k, v in res["tags"].items():
            tags[k] = tags.get(k, 0) + v
        if res["inconclusive"]:
            rep.inc(res["inconclusive"][:60])
        rep.sample(res["sample"], limit=3)
        for v in res["violations"]:
            rep.add_violation(Violation(v["signature"], v["what"], res.get("witness")))
    run_sentinels(rep, sentinel)
    rep.coverage.update(disk_layouts=[DISK_LAYOUTS[i] for i in layouts], query_features_compared=tags)
    rep.floor("queries compared with non-empty result", len(rep.distinct), n * 2)
    rep.assumptions = ["error texts are not compared, only ok/err", "pg_catalog.pg_stat (disk-only by design) is not queried"]
    return rep.finish()


def replay(path):
    import json
    w = json.load(open(path))["witness"]
    out = sentinel(w)
    for sig, what in out:
        print("VIOLATION-REPRO", sig, what)
    return 1 if out else 0
