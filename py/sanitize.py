"""Sanitizer overlays: re-run a check's own workload with the harness built under a compiler
sanitizer (ASan, TSan) or kernel-level drivers under the Miri interpreter, and turn sanitizer
reports whose stack touches risinglight code into violations of the property whose workload
reached them.  The behavioural oracles still run in the overlay (so the evidence shows what was
observed under the sanitizer), but only the sanitizer's own reports are taken from it: a slow
build must not turn time-outs into verdicts."""
import fcntl
import glob
import json
import os
import re
import subprocess
import time

from common import VERIF, HARNESS, Violation, Inconclusive, scratch_dir, rm, log, NCPU

TARGET = "x86_64-unknown-linux-gnu"
BUILDS = {
    "asan": dict(
        dir="target-asan", toolchain=None, extra=[],
        rustflags="-Zsanitizer=address -Cforce-frame-pointers=yes --cfg tokio_unstable"),
    "tsan": dict(
        dir="target-tsan", toolchain="+nightly", extra=["-Zbuild-std"],
        rustflags="-Zsanitizer=thread --cfg tokio_unstable --cfg error_generic_member_access"),
}


def binary(kind):
    return os.path.join(HARNESS, BUILDS[kind]["dir"], TARGET, "release", "rlv")


def build(kind):
    """Build the harness (and /repo's current tree) under the sanitizer; serialised; incremental."""
    b = BUILDS[kind]
    os.makedirs(os.path.join(HARNESS, b["dir"]), exist_ok=True)
    lock = open(os.path.join(HARNESS, b["dir"], ".verif-build.lock"), "w")
    fcntl.flock(lock, fcntl.LOCK_EX)
    try:
        env = dict(os.environ)
        env["CARGO_NET_OFFLINE"] = "true"
        env["RUSTFLAGS"] = b["rustflags"]
        cmd = ["cargo"] + ([b["toolchain"]] if b["toolchain"] else []) + \
              ["build", "--release", "--offline"] + b["extra"] + \
              ["--target", TARGET, "--target-dir", b["dir"]]
        t0 = time.time()
        p = subprocess.run(cmd, cwd=HARNESS, env=env, stdout=subprocess.PIPE, stderr=subprocess.STDOUT, text=True)
        if p.returncode != 0:
            log(p.stdout[-3000:])
            raise Inconclusive(f"{kind} build failed")
        return time.time() - t0
    finally:
        fcntl.flock(lock, fcntl.LOCK_UN)
        lock.close()


FRAME = re.compile(r"^\s*#(\d+)\s+0x[0-9a-f]+\s+(?:in\s+)?(.*)$")


def _in_repo(frame):
    return ("risinglight" in frame and "rlverif" not in frame) or "/repo/src/" in frame


def _strip(frame):
    # function name without hashes/addresses/line numbers
    f = frame.split(" /")[0].split(" (")[0].strip()
    f = re.sub(r"::h[0-9a-f]{16}$", "", f)
    return f[:140]


def parse_reports(logdir, kind):
    """-> list of dict(kind, title, first_repo_frame, top, text)"""
    out = []
    marker = "ERROR: AddressSanitizer" if kind == "asan" else "WARNING: ThreadSanitizer"
    for f in sorted(glob.glob(os.path.join(logdir, f"{kind}.*"))):
        try:
            text = open(f, errors="replace").read()
        except OSError:
            continue
        blocks = text.split("==================") if kind == "tsan" else [text]
        for blk in blocks:
            if marker not in blk:
                continue
            title = ""
            for line in blk.splitlines():
                if marker in line:
                    title = line.split(marker, 1)[1].strip(": ").split(" on address")[0].split(" (pid")[0]
                    break
            frames = [m.group(2) for m in (FRAME.match(l) for l in blk.splitlines()) if m]
            repo_frames = [_strip(x) for x in frames if _in_repo(x)]
            out.append(dict(kind=kind, title=title[:80], first_repo_frame=repo_frames[0] if repo_frames else None,
                            top=[_strip(x) for x in frames[:6]], text=blk[:6000]))
    return out


def overlay(rep, kind, timeout, tier="quick", seed=None, extra_env=None):
    """Run `./check <prop> --tier <tier>` against the sanitizer build; classify its reports."""
    t0 = time.time()
    try:
        build(kind)
    except Inconclusive as e:
        rep.inc(f"{kind} overlay: {e}")
        return
    logdir = scratch_dir(f"{kind}log")
    env = dict(os.environ)
    env.update({
        "VERIF_RLV_BIN": binary(kind), "VERIF_OVERLAY": kind, "VERIF_NO_BUILD": "1",
        "VERIF_SEED": str(seed if seed is not None else rep.seed),
        "ASAN_OPTIONS": f"log_path={logdir}/asan:detect_leaks=0:halt_on_error=1:abort_on_error=0:allocator_may_return_null=1",
        "TSAN_OPTIONS": f"log_path={logdir}/tsan:halt_on_error=0:exitcode=0:second_deadlock_stack=1",
    })
    if extra_env:
        env.update(extra_env)
    status = "completed"
    try:
        p = subprocess.run([os.path.join(VERIF, "check"), rep.prop, "--tier", tier], env=env,
                           stdout=subprocess.PIPE, stderr=subprocess.PIPE, text=True, timeout=timeout)
        rc = p.returncode
    except subprocess.TimeoutExpired:
        rc, status = None, "timeout"
    reports = parse_reports(logdir, kind)
    ev = {}
    try:
        ev = json.load(open(os.path.join(VERIF, "evidence", ".overlay", f"{rep.prop}-{kind}.json")))
    except Exception:
        pass
    cov = ev.get("coverage", {})
    seen = {}
    third_party = {}
    for r in reports:
        if r["first_repo_frame"]:
            sig = f"{kind}:{r['title']}:{r['first_repo_frame']}"
            if sig not in seen:
                seen[sig] = r
        else:
            key = f"{r['title']}:{(r['top'] or ['?'])[0]}"
            third_party[key] = third_party.get(key, 0) + 1
    for sig, r in seen.items():
        rep.add_violation(Violation(sig, f"{kind} report with risinglight frames: {r['title']} at {r['first_repo_frame']}",
                                    dict(overlay=kind, seed=env["VERIF_SEED"], report=r["text"])))
    rep.coverage[f"sanitizer_{kind}"] = {
        "status": status, "check_exit": rc, "wall_s": round(time.time() - t0, 1),
        "workload": f"./check {rep.prop} --tier {tier} on the {kind} build",
        "evaluations_under_sanitizer": cov.get("evaluations", 0),
        "distinct_under_sanitizer": cov.get("distinct_nontrivial", 0),
        "reports_total": len(reports), "reports_with_risinglight_frames": len(seen),
        "reports_third_party_only": third_party,
        "oracle_outcome_under_sanitizer": {0: "held", 1: "violations (not taken from the overlay)", 2: "inconclusive"}.get(rc, str(rc)),
    }
    if status != "completed" or not cov.get("evaluations"):
        rep.inc(f"{kind} overlay {status}, evaluations={cov.get('evaluations', 0)}")
    rm(logdir)


# ----------------------------------------------------------------------------------------------
# Miri

MIRI_DIR = os.path.join(VERIF, "harness-miri")
MIRIFLAGS = "-Zmiri-disable-isolation -Zmiri-permissive-provenance -Zmiri-disable-stacked-borrows"


def miri(rep, jobs, timeout, sig_prefix=""):
    """jobs: list of argv lists for the `rlm` driver (e.g. ["ops", seed, n, shard]).  Runs them in
    parallel under `cargo +nightly miri run`; an `error: Undefined Behavior` whose backtrace has
    risinglight frames is a violation; `unsupported operation` is inconclusive.  The aliasing
    model is off (moka 0.12's intrusive deque trips both Stacked and Tree Borrows in third-party
    code); uninitialised reads, out-of-bounds and misaligned accesses, invalid values, use after
    free and data races are all still checked."""
    import concurrent.futures as cf
    env = dict(os.environ)
    env["CARGO_NET_OFFLINE"] = "true"
    env["MIRIFLAGS"] = MIRIFLAGS
    env.pop("RUSTFLAGS", None)
    t0 = time.time()
    # refresh lock file from the repo, then one build so that the parallel runs only interpret
    b = subprocess.run(["cargo", "+nightly", "miri", "run", "-q", "--", "none"], cwd=MIRI_DIR, env=env,
                       stdout=subprocess.PIPE, stderr=subprocess.PIPE, text=True, timeout=3600)
    if "error[" in b.stderr or "could not compile" in b.stderr:
        log(b.stderr[-3000:])
        rep.inc("miri build failed")
        return

    def one(argv):
        try:
            p = subprocess.run(["cargo", "+nightly", "miri", "run", "-q", "--"] + [str(a) for a in argv],
                               cwd=MIRI_DIR, env=env, stdout=subprocess.PIPE, stderr=subprocess.PIPE,
                               text=True, timeout=timeout)
            return argv, p.returncode, p.stdout, p.stderr
        except subprocess.TimeoutExpired:
            return argv, None, "", "timeout"

    tot = dict(jobs=0, completed=0, cases=0, ub_reports=0, unsupported=0, timeouts=0, combos=set())
    with cf.ThreadPoolExecutor(max_workers=NCPU) as ex:
        for argv, rc, out, err in ex.map(one, jobs):
            tot["jobs"] += 1
            if rc is None:
                tot["timeouts"] += 1
                continue
            if "error: Undefined Behavior" in err or "error: memory leaked" in err or "Data race detected" in err:
                tot["ub_reports"] += 1
                blk = err[err.find("error:"):][:6000]
                title = blk.splitlines()[0][:120]
                frames = re.findall(r"^\s+\d+: (.*)$", blk, re.M)
                repo = [f for f in frames if "risinglight::" in f]
                where = re.search(r"-->\s+(\S+)", blk)
                loc = where.group(1) if where else "?"
                in_repo = loc.startswith("/repo/") or bool(repo)
                if in_repo:
                    first = loc if loc.startswith("/repo/") else repo[0][:120]
                    first = re.sub(r":\d+:\d+$", "", first)
                    rep.add_violation(Violation(f"miri:{title.split(':')[1].strip() if ':' in title else title}:{first}",
                                                f"Miri: {title} at {loc}", dict(overlay="miri", argv=argv, report=blk)))
                else:
                    rep.inc(f"miri report in third-party code only: {title[:50]}")
                continue
            if "unsupported operation" in err:
                tot["unsupported"] += 1
                continue
            line = [l for l in out.splitlines() if l.startswith("{")]
            if not line:
                tot["unsupported"] += 1
                continue
            tot["completed"] += 1
            try:
                d = json.loads(line[-1])
                tot["cases"] += d.get("cases", 0) or d.get("triples", 0)
                tot["combos"].update((d.get("combos") or d.get("pool_sizes") or {}).keys())
                for v in d.get("violations", []):
                    # behavioural oracle firing under the interpreter (same oracle as the native run)
                    # (same signature as the native run gives it, so that an open finding is the same finding under the interpreter)
                    rep.add_violation(Violation(sig_prefix + v.get("signature", "?"), "under miri: " + str(v.get("what", ""))[:200],
                                                dict(overlay="miri", argv=argv, case=v.get("case"))))
            except Exception:
                pass
    tot["combos"] = len(tot["combos"])
    tot["wall_s"] = round(time.time() - t0, 1)
    tot["flags"] = MIRIFLAGS
    rep.coverage["miri"] = tot
    if tot["completed"] == 0:
        rep.inc("miri: no job completed")
