"""C18 - corrupted column data is detected, not returned.

A CRC32 database (small blocks, two tables, several row-sets) is built and shut down; then for
each mutation (single-bit flip, byte overwrite, truncation) of one .col / .idx file a copy of the
directory is opened in a fresh runner process and every table is queried three times, a
compaction pass runs, and the tables are queried again. Each query must fail or return exactly
the pristine rows; tables whose files were not touched must stay readable."""
import os
import random
import shutil

from common import Report, Violation, parallel_map, h, run_sentinels, scratch_dir, rm, SCRATCH_ROOT
from sqlcase import RL, ms

LAYOUT = dict(block=64, rowset=600, crc=True, first_key=True)
# with `rowset=600` every row-set is larger than the compactor's target, so a compaction pass selects nothing; in the second
# layout the target is large and a pass merges all row-sets of a table - reading the damaged one on the way
LAYOUTS = {"small": LAYOUT, "merge": dict(block=64, rowset=1 << 20, crc=True, first_key=True)}

SETUP = [
    "create table a(k int primary key, v varchar, w bigint)",
    "create table b(x int, y double)",
    "insert into a values " + ", ".join(f"({i}, 'v{i % 7}', {i * 1000})" for i in range(0, 40)),
    "insert into a values " + ", ".join(f"({i}, 'w{i % 5}', {i * 7})" for i in range(100, 130)),
    "insert into b values " + ", ".join(f"({i % 5}, {i}.5)" for i in range(30)),
    "insert into b values (null, null), (7, 1.25)",
    "delete from a where k = 3",
]
QUERIES = {"a": "select * from a", "b": "select * from b"}


def build_pristine(base, layout="small"):
    rl = RL("disk", LAYOUTS[layout], keep_dir=base)
    try:
        for s in SETUP:
            r = rl.sql(s)
            assert r["ok"], (s, r)
        ref = {t: ms(rl.sql(q)["rows"]) for t, q in QUERIES.items()}
        r = rl.cmd({"op": "shutdown"})
        assert r["ok"], r
    finally:
        rl.r.close()
    files = []
    for root, _, fs in os.walk(os.path.join(base, "db")):
        for f in fs:
            if f.endswith(".col") or f.endswith(".idx"):
                p = os.path.join(root, f)
                files.append((os.path.relpath(p, os.path.join(base, "db")), os.path.getsize(p)))
    return ref, sorted(files)


def table_of(relpath):
    # directory name is <table id>_<rowset id>; table ids: a=0, b=1
    return {"0": "a", "1": "b"}.get(relpath.split("_")[0])


def apply_mutation(path, m):
    data = bytearray(open(path, "rb").read())
    kind = m["kind"]
    if kind == "bit":
        data[m["pos"]] ^= 1 << m["bit"]
    elif kind == "byte":
        if data[m["pos"]] == m["val"]:
            data[m["pos"]] ^= 0xFF
        else:
            data[m["pos"]] = m["val"]
    elif kind == "trunc":
        data = data[: m["len"]]
    elif kind == "zero":
        # a zeroed range (a lost page, a hole punched by the file system)
        before = bytes(data[m["pos"]:m["pos"] + m["len"]])
        for i in range(m["pos"], min(len(data), m["pos"] + m["len"])):
            data[i] = 0
        if bytes(data[m["pos"]:m["pos"] + m["len"]]) == before:
            data[m["pos"]] ^= 0xFF   # the range was all zeros already: alter one byte so that something changes
    elif kind == "swap":
        # a misdirected write: the bytes of block j are replaced by the (self-consistent) bytes of block i
        a, b = m["src"], m["dst"]
        data[b[0]:b[1]] = data[a[0]:a[1]]
    open(path, "wb").write(bytes(data))


def block_bounds(path):
    """[(start, end)] of the blocks of a .col file, recovered from the block trailers
    (block_type i32, checksum_type i32, crc32 u64 over everything before checksum_type)."""
    import struct
    import zlib
    data = open(path, "rb").read()
    out, start = [], 0
    while start < len(data):
        for end in range(start + 16, len(data) + 1):
            if data[end - 12:end - 8] == b"\x00\x00\x00\x01" and \
               struct.unpack(">Q", data[end - 8:end])[0] == (zlib.crc32(data[start:end - 12]) & 0xFFFFFFFF):
                out.append((start, end))
                start = end
                break
        else:
            break
    return out


def rowset_dirs(d):
    return sorted(x for x in os.listdir(os.path.join(d, "db")) if "_" in x and os.path.isdir(os.path.join(d, "db", x)))


def run_mutation(args):
    pristine, ref, m = args
    layout = m.get("layout", "small")
    if isinstance(pristine, dict):
        pristine, ref = pristine[layout], ref[layout]
    LAYOUT = LAYOUTS[layout]
    res = dict(m=m, violations=[], outcome=None, queries=0, detected=0, benign=0, inconclusive=None, merged=0, passes=0)
    d = scratch_dir("cor")
    try:
        shutil.copytree(os.path.join(pristine, "db"), os.path.join(d, "db"))
        apply_mutation(os.path.join(d, "db", m["file"]), m)
        target = table_of(m["file"])
        try:
            rl = RL("disk", LAYOUT, keep_dir=d)
        except RuntimeError as e:
            res["outcome"] = "open_failed"
            return res
        except Exception as e:
            res["outcome"] = "open_aborted"
            return res
        try:
            res["outcome"] = "opened"
            for phase in ("first", "again", "third", "after-compaction"):
                if phase == "after-compaction":
                    before = rowset_dirs(d)
                    try:
                        rl.cmd({"op": "tick", "secs": 1})
                        if layout == "merge":
                            rl.cmd({"op": "tick", "secs": 1})
                    except Exception:
                        res["outcome"] = "died-in-compaction"
                        break
                    res["passes"] += 1
                    if rowset_dirs(d) != before:
                        res["merged"] += 1
                for t, q in QUERIES.items():
                    r = rl.sql(q)
                    res["queries"] += 1
                    if r.get("dead"):
                        res["outcome"] = "runner-died-on-query"
                        if t != target:
                            res["violations"].append(dict(signature=f"unaffected-table-unreadable:{ftype(m)}", what=f"{desc(m)}: query on untouched table {t} killed the process: {r['err'][:80]}"))
                        break
                    if r["ok"]:
                        if ms(r["rows"]) != ref[t]:
                            got = ms(r["rows"])
                            diff = [x for x in got if x not in ref[t]][:2]
                            res["violations"].append(dict(
                                signature=f"altered-rows-returned:{ftype(m)}{mclass(m)}:{phase if phase in ('first', 'after-compaction') else 'repeated-read'}",
                                what=f"{desc(m)}: {q} ({phase}) returned Ok with {len(got)} rows (pristine {len(ref[t])}); altered/unknown rows {diff}"))
                            break
                        elif t == target:
                            res["benign"] += 1
                    else:
                        if t != target:
                            res["violations"].append(dict(signature=f"unaffected-table-unreadable:{ftype(m)}",
                                                          what=f"{desc(m)}: {q} on the untouched table fails: {r.get('err', '')[:100]}"))
                            break
                        res["detected"] += 1
                else:
                    continue
                break
        finally:
            rl.r.close()
    except Exception as e:
        res["inconclusive"] = f"harness: {type(e).__name__}: {e}"
    finally:
        rm(d)
    return res


def ftype(m):
    return m["file"].rsplit(".", 1)[1]


def mclass(m):
    """bit flips, byte overwrites and truncations share the historical signatures; the structured faults have their own"""
    return "" if m["kind"] in ("bit", "byte", "trunc") else ":" + m["kind"]


def desc(m):
    if m["kind"] == "bit":
        return f"flip bit {m['bit']} of byte {m['pos']} of {m['file']}"
    if m["kind"] == "byte":
        return f"overwrite byte {m['pos']} of {m['file']} with {m['val']:#x}"
    if m["kind"] == "zero":
        return f"zero bytes {m['pos']}..{m['pos'] + m['len']} of {m['file']}"
    if m["kind"] == "swap":
        return f"overwrite block at {m['dst'][0]}..{m['dst'][1]} of {m['file']} with the block at {m['src'][0]}..{m['src'][1]}"
    return f"truncate {m['file']} to {m['len']} bytes"


def structured_mutations(rng, files, base, tier):
    """zeroed ranges and misdirected block writes, placed with knowledge of the block boundaries"""
    muts = []
    for f, size in files:
        if not f.endswith(".col"):
            if tier == "thorough":
                for pos in range(0, size, 8):
                    muts.append(dict(kind="zero", file=f, pos=pos, len=16))
            else:
                muts.append(dict(kind="zero", file=f, pos=rng.randrange(size), len=rng.choice([4, 16, 64])))
            continue
        bounds = block_bounds(os.path.join(base, "db", f))
        zs, sw = [], []
        for (a, b) in bounds:
            # the trailer (checksum type + checksum) and some of the data in front of it
            for back in (12, 13, 16, 20, 32, b - a):
                zs.append(dict(kind="zero", file=f, pos=max(a, b - back), len=min(back, b - a)))
            zs.append(dict(kind="zero", file=f, pos=a, len=max(1, (b - a) // 2)))
        for i, x in enumerate(bounds):
            for j, y in enumerate(bounds):
                if i != j and x[1] - x[0] == y[1] - y[0]:
                    sw.append(dict(kind="swap", file=f, src=list(x), dst=list(y)))
        if tier != "thorough":
            zs = rng.sample(zs, min(len(zs), 6))
            sw = rng.sample(sw, min(len(sw), 3))
        muts += zs + sw
    return muts


def gen_mutations(rng, files, tier, base=None):
    muts = structured_mutations(rng, files, base, tier) if base else []
    if tier == "thorough":
        for f, size in files:
            for pos in range(size):
                for bit in range(8):
                    muts.append(dict(kind="bit", file=f, pos=pos, bit=bit))
            for pos in range(0, size, 3):
                muts.append(dict(kind="byte", file=f, pos=pos, val=rng.choice([0, 0xFF])))
            for ln in range(0, size):
                muts.append(dict(kind="trunc", file=f, len=ln))
        return muts, True
    for _ in range(1200):
        f, size = rng.choice(files)
        k = rng.random()
        if k < 0.6:
            # bias towards the end of the file: block trailers / index footers live there
            pos = rng.randrange(size) if rng.random() < 0.6 else max(0, size - 1 - rng.randrange(min(size, 24)))
            muts.append(dict(kind="bit", file=f, pos=pos, bit=rng.randrange(8)))
        elif k < 0.8:
            muts.append(dict(kind="byte", file=f, pos=rng.randrange(size), val=rng.choice([0, 0xFF, 0x7F])))
        else:
            muts.append(dict(kind="trunc", file=f, len=rng.choice([0, 1, size - 1, size // 2, rng.randrange(size)])))
    return muts, False


def sentinel(w):
    base = os.path.join(SCRATCH_ROOT, f"rlv-c18-sent-{os.getpid()}")
    shutil.rmtree(base, ignore_errors=True)
    os.makedirs(base)
    try:
        ref, files = build_pristine(base)
        res = run_mutation((base, ref, w["m"]))
        out = [(v["signature"], v["what"]) for v in res["violations"]]
        if res["outcome"] in ("open_failed", "open_aborted"):
            sig = f"open-fails:{ftype(w['m'])}" if res["outcome"] == "open_failed" else f"open-aborts-process:{ftype(w['m'])}"
            out.append((sig, f"{desc(w['m'])}: the database does not open any more ({res['outcome']})"))
        return out
    finally:
        rm(base)


def run(tier, seed):
    rep = Report("C18", tier, seed, "fault_enumeration")
    rng = random.Random(f"c18-{seed}")
    base = os.path.join(SCRATCH_ROOT, f"rlv-c18-{os.getpid()}")
    shutil.rmtree(base, ignore_errors=True)
    os.makedirs(base)
    try:
        ref, files = build_pristine(base)
        muts, exhaustive = gen_mutations(rng, files, tier, base)
        # the same database opened with a layout in which the compaction pass merges the row-sets of each table (mutations drawn
        # from a stream of their own; a third of them in the first block of a file, which is read when an iterator is created)
        # (the same files: the row-set target is an option of the opening process, not of the files)
        base2, ref2, files2 = base, ref, files
        rng2 = random.Random(f"c18m-{seed}")
        muts2 = []
        cols2 = [(f, size) for f, size in files2 if f.endswith(".col")]
        for f, size in cols2:
            bounds = block_bounds(os.path.join(base2, "db", f))
            first_end = bounds[0][1] if bounds else min(size, 64)
            n_first, n_any = (3, 4) if tier == "quick" else (40, 80)
            for _ in range(n_first):
                muts2.append(dict(kind="bit", file=f, pos=rng2.randrange(first_end), bit=rng2.randrange(8), layout="merge"))
            for _ in range(n_any):
                k = rng2.random()
                if k < 0.6:
                    muts2.append(dict(kind="bit", file=f, pos=rng2.randrange(size), bit=rng2.randrange(8), layout="merge"))
                elif k < 0.8:
                    muts2.append(dict(kind="byte", file=f, pos=rng2.randrange(size), val=rng2.choice([0, 0xFF, 0x7F]), layout="merge"))
                else:
                    muts2.append(dict(kind="trunc", file=f, len=rng2.choice([0, 1, size - 1, size // 2, rng2.randrange(size)]), layout="merge"))
        muts = muts + muts2
        bases, refs = {"small": base, "merge": base2}, {"small": ref, "merge": ref2}
        rep.rule = ("mutations of the .col/.idx files of a CRC32 database (2 tables, 5 row-sets, 64-byte blocks): single-bit flips, "
                    "byte overwrites, truncations, zeroed ranges (incl. block trailers with the data in front of them) and misdirected "
                    "block writes (a block replaced by another, self-consistent block of the same file); thorough enumerates every bit of every file; per mutation 3 reads of every "
                    "table, a compaction pass, a 4th read; the same files opened with a large row-set target, so that the pass "
                    "merges all row-sets of a table (and so reads the damaged one); distinct non-trivial = distinct mutations after which the database "
                    "opened and at least one read was judged")
        outcomes = {}
        open_failed = {}
        merged = passes = 0
        for res in parallel_map(run_mutation, [(bases, refs, m) for m in muts]):
            rep.evaluations += 1
            if res["m"].get("layout") == "merge":
                merged += res.get("merged", 0)
                passes += res.get("passes", 0)
            if res["inconclusive"]:
                rep.inc(res["inconclusive"][:50])
                continue
            outcomes[res["outcome"]] = outcomes.get(res["outcome"], 0) + 1
            if res["outcome"] in ("open_failed", "open_aborted"):
                k = ftype(res["m"])
                open_failed[k] = open_failed.get(k, 0) + 1
                sig = f"open-fails:{k}" if res["outcome"] == "open_failed" else f"open-aborts-process:{k}"
                rep.add_violation(Violation(sig, f"{desc(res['m'])}: the database does not open any more ({res['outcome']}), so the untouched table is unreadable", dict(m=res["m"])))
                continue
            if res["queries"]:
                rep.distinct.add(h(res["m"]))
            rep.coverage["reads_detected"] = rep.coverage.get("reads_detected", 0) + res["detected"]
            rep.coverage["reads_unchanged"] = rep.coverage.get("reads_unchanged", 0) + res["benign"]
            rep.sample(dict(mutation=desc(res["m"]), outcome=res["outcome"], reads_failed=res["detected"], reads_returning_pristine_rows=res["benign"]), limit=5)
            for v in res["violations"]:
                rep.add_violation(Violation(v["signature"], v["what"], dict(m=res["m"])))
        run_sentinels(rep, sentinel)
        kinds = {}
        for m in muts:
            kinds[m["kind"]] = kinds.get(m["kind"], 0) + 1
        rep.coverage.update(mutations_by_kind=kinds)
        rep.coverage.update(files=[f for f, _ in files], file_bytes=sum(s for _, s in files), outcomes=outcomes,
                            exhaustive=exhaustive, open_failures_by_file_type=open_failed)
        rep.coverage.update(merge_layout=dict(mutations=len(muts2), compaction_passes=passes, passes_that_replaced_row_sets=merged,
                                              files=[f for f, _ in files2]))
        rep.floor("mutations after which reads were judged", len(rep.distinct), len(muts) // 3)
        rep.floor("compaction passes over a damaged table in the merging layout", passes, len(muts2) // 2)
        rep.assumptions = ["a mutation that leaves the decoded content identical may legitimately return the pristine rows",
                           "delete-vector files and the manifest are outside this property (C04)"]
        if tier == "thorough" and not os.environ.get("VERIF_OVERLAY"):
            import sanitize
            sanitize.overlay(rep, "asan", timeout=7200)
        return rep.finish()
    finally:
        rm(base)


def replay(path):
    import json
    w = json.load(open(path))["witness"]
    out = sentinel(w)
    for s in out:
        print("VIOLATION-REPRO", s)
    return 1 if out else 0
