"""C19 - values of every type compare, hash and print coherently.

Value leg (`rlv kern values`): for boundary + random pools of all 13 value types, equality is
checked to be an equivalence, cmp a total order consistent with it, equal values to hash alike,
the comparison kernels (<, =, >) to agree with DataValue ordering, and print -> parse to return
the value through both paths SQL uses (cast from a string literal; CSV field parser).
SQL leg: single-column tables on both engines; ORDER BY, the < operator, join equality, GROUP BY,
DISTINCT and MIN/MAX must all induce the same relations on the stored values, and the storage
sort order (memory vs disk) must be the same sequence."""
import os
import json
import random
import subprocess

from common import Report, Violation, RLV, parallel_map, h, run_sentinels
from sqlcase import RL, ms, DISK_LAYOUTS

POOLS = {
    "INT": ["0", "1", "-1", "2147483647", "-2147483648", "7", "7", "65536"],
    # (neighbours above 2^53: distinct BIGINTs that a detour through DOUBLE would identify)
    "BIGINT": ["0", "1", "-1", "9223372036854775807", "-9223372036854775807", "7", "1099511627776",
               "9007199254740992", "9007199254740993", "9223372036854775806", "-9007199254740993", "-9007199254740992"],
    "SMALLINT": ["0", "1", "-1", "32767", "-32768", "7", "7"],
    "DOUBLE": ["0.0", "1.5", "-1.5", "100.0", "0.1", "123456789012345.5", "0.000001", "1.5"],
    "DECIMAL(12,3)": ["0", "1.5", "1.50", "-2.25", "0.001", "10", "9.999", "1.500"],
    "VARCHAR": ["''", "'a'", "'A'", "'ab'", "'a '", "' a'", "'z'", "'10'", "'9'", "'a'"],
    "DATE": ["DATE '2000-01-01'", "DATE '1999-12-31'", "DATE '2024-02-29'", "DATE '1970-01-01'", "DATE '2000-01-01'", "DATE '0001-01-01'"],
    "BOOLEAN": ["true", "false", "true"],
    "TIMESTAMP": ["'2020-01-01 10:00:00'", "'1999-12-31 23:59:59'", "'1970-01-01 00:00:00'", "'2020-01-01 10:00:00'", "'2020-01-01 09:59:59'"],
    "INTERVAL": ["INTERVAL '1' DAY", "INTERVAL '30' DAY", "INTERVAL '1' MONTH", "INTERVAL '1' YEAR", "INTERVAL '12' MONTH", "'2 hours'", "'1 day 2 hours'"],
}


def canon(c):
    """cells that the engine treats as equal values print differently in two cases"""
    if isinstance(c, str) and c in ("f:-0.0",):
        return "f:0.0"
    return c


def sql_case(args):
    seed, idx = args
    rng = random.Random(f"c19-{seed}-{idx}")
    typ = rng.choice(sorted(POOLS))
    vals = [rng.choice(POOLS[typ]) for _ in range(rng.randint(3, 12))] + ["NULL"] * rng.choice([0, 1, 2])
    rng.shuffle(vals)
    res = dict(violations=[], evals=0, typ=typ, distinct=None, inconclusive=None)
    seqs = {}
    for engine in ("mem", "disk"):
        rl = RL(engine, DISK_LAYOUTS[0])
        try:
            r = rl.sql(f"create table t(a {typ})")
            if not r["ok"]:
                res["inconclusive"] = "create rejected"
                return res
            # several inserts: several row-sets on disk
            k = max(1, len(vals) // 3)
            for i in range(0, len(vals), k):
                r = rl.sql("insert into t values " + ", ".join(f"({v})" for v in vals[i:i + k]))
                if not r["ok"]:
                    res["inconclusive"] = "insert rejected: " + r.get("err", "")[:60]
                    return res
            q = {}
            for name, sql in [("order", "select a from t order by a"), ("desc", "select a from t order by a desc"),
                              ("lt", "select x.a, y.a from t x, t y where x.a < y.a"),
                              ("eq", "select x.a, y.a from t x join t y on x.a = y.a"),
                              ("in", "select a from t where a in (select a from t)"),
                              ("group", "select a, count(*) from t group by a"), ("distinct", "select distinct a from t"),
                              ("minmax", "select min(a), max(a) from t")]:
                r = rl.sql(sql)
                res["evals"] += 1
                if not r["ok"]:
                    q[name] = None
                    continue
                q[name] = [tuple(canon(c) for c in row) for row in r["rows"]]
            # the storage sort order: a table keyed by the column keeps its rows in key order on disk (memtable
            # sort, ordered merge of row-sets) and the optimizer then drops the ORDER BY - the sequence must be the
            # one a real sort gives
            nonnull = [v for v in vals if v != "NULL"]
            q["pk_order"] = None
            if nonnull and rl.sql(f"create table tp(a {typ} primary key)")["ok"]:
                okp = True
                for i in range(0, len(nonnull), k):
                    okp = okp and rl.sql("insert into tp values " + ", ".join(f"({v})" for v in nonnull[i:i + k]))["ok"]
                r = rl.sql("select a from tp order by a") if okp else {"ok": False}
                res["evals"] += 1
                if r["ok"]:
                    q["pk_order"] = [canon(row[0]) for row in r["rows"]]
            tag = f"{typ} {engine} values {vals}"
            S = q["order"]
            if S is None:
                res["inconclusive"] = "order by rejected"
                return res
            seq = [x[0] for x in S]
            seqs[engine] = seq
            nn = [x for x in seq if x is not None]
            if None in seq[len(seq) - seq.count(None):] and seq.count(None) and seq[0] is not None:
                res["violations"].append(dict(signature=f"nulls-not-first:{typ}", what=f"ORDER BY placed NULL after values: {seq} [{tag}]"))
            if q["desc"] is not None and [x[0] for x in q["desc"]] != seq[::-1] and ms(q["desc"]) == ms(S):
                # ties may permute but cells are identical for equal values, so sequences must mirror
                res["violations"].append(dict(signature=f"desc-not-reverse-of-asc:{typ}", what=f"asc {seq} desc {[x[0] for x in q['desc']]} [{tag}]"))
            if q["lt"] is not None:
                lt = set(q["lt"])
                for a, b in zip(nn, nn[1:]):
                    if a != b and (a, b) not in lt:
                        res["violations"].append(dict(signature=f"order-by-vs-less-than:{typ}", what=f"ORDER BY puts {a} before {b} but `{a} < {b}` is not true [{tag}]"))
                        break
                    if (b, a) in lt:
                        res["violations"].append(dict(signature=f"order-by-vs-less-than:{typ}", what=f"ORDER BY puts {a} before {b} but `{b} < {a}` holds [{tag}]"))
                        break
                for a, b in lt:
                    if a == b:
                        res["violations"].append(dict(signature=f"less-than-not-irreflexive:{typ}", what=f"{a} < {b} [{tag}]"))
                        break
            if q["eq"] is not None:
                want = sorted((a, b) for a in nn for b in nn if a == b)
                if sorted(q["eq"]) != want:
                    res["violations"].append(dict(signature=f"join-equality-vs-identity:{typ}", what=f"self equi-join pairs {sorted(set(q['eq']))[:6]} vs equal cells {sorted(set(want))[:6]} [{tag}]"))
            if q["pk_order"] is not None and q["pk_order"] != nn:
                res["violations"].append(dict(signature=f"primary-key-order-vs-order-by:{typ}", what=f"[{engine}] ORDER BY on the key of a keyed table gives {q['pk_order'][:8]}, sorting the same values gives {nn[:8]} [{tag}]"))
            if q["pk_order"] is not None:
                res["pk_judged"] = res.get("pk_judged", 0) + 1
            if q.get("in") is not None and sorted(x[0] for x in q["in"]) != sorted(nn):
                res["violations"].append(dict(signature=f"in-subquery-vs-identity:{typ}", what=f"a IN (select a) returned {sorted(x[0] for x in q['in'])[:8]} for non-NULL values {sorted(nn)[:8]} [{tag}]"))
            if q["group"] is not None:
                want = sorted(((a, seq.count(a)) for a in set(seq)), key=str)
                if sorted(q["group"], key=str) != want:
                    res["violations"].append(dict(signature=f"group-by-vs-identity:{typ}", what=f"groups {sorted(q['group'], key=str)} vs {want} [{tag}]"))
            if q["distinct"] is not None and sorted((x[0] for x in q["distinct"]), key=str) != sorted(set(seq), key=str):
                res["violations"].append(dict(signature=f"distinct-vs-identity:{typ}", what=f"distinct {q['distinct']} vs {set(seq)} [{tag}]"))
            if q["minmax"] is not None and nn and q["minmax"] != [(nn[0], nn[-1])]:
                res["violations"].append(dict(signature=f"min-max-vs-order-by:{typ}", what=f"min/max {q['minmax']} but ORDER BY gives {nn[0]} .. {nn[-1]} [{tag}]"))
        except Exception as e:
            res["inconclusive"] = f"harness: {type(e).__name__}: {e}"
        finally:
            rl.close()
    if len(seqs) == 2 and seqs["mem"] != seqs["disk"]:
        res["violations"].append(dict(signature=f"engines-order-differently:{typ}", what=f"mem {seqs['mem']} disk {seqs['disk']}"))
    res["distinct"] = h([typ, sorted(vals)])
    res["witness"] = dict(seed=seed, idx=idx)
    return res


def run(tier, seed):
    rep = Report("C19", tier, seed, "exploration")
    extra, nsql = (25, 640) if tier == "quick" else (120, 6000)
    rep.rule = ("value leg: all pairs / triples over boundary pools (+random values) of 13 types: eq/cmp/hash laws, comparison "
                "kernels vs DataValue::cmp, print->parse through cast and CSV parser; SQL leg: single-column tables of 10 types "
                "on both engines, ORDER BY / < / = join / GROUP BY / DISTINCT / MIN,MAX coherence; distinct non-trivial = distinct "
                "(type, value multiset) SQL cases plus the number of value types whose pools passed through all laws")
    try:
        p = subprocess.run([RLV, "kern", "values", str(seed), str(extra)], stdout=subprocess.PIPE, stderr=subprocess.PIPE, text=True, timeout=3000)
        d = json.loads(p.stdout.strip().splitlines()[-1])
        rep.evaluations += d["triples"] + d["pairs"] + d["roundtrips"]
        rep.coverage.update(value_triples=d["triples"], value_pairs=d["pairs"], kernel_vs_value_pairs=d["kernel_pairs"],
                            print_parse_roundtrips=d["roundtrips"], pool_sizes=d["pool_sizes"],
                            literal_texts_accepted_as_values=d.get("literal_texts_accepted"), literal_texts_rejected=d.get("literal_texts_rejected"))
        for v in d["violations"]:
            rep.add_violation(Violation("value:" + v["signature"], v["what"], dict(value_leg=True, seed=seed, extra=extra)))
        ntypes = len(d["pool_sizes"])
        rep.floor("value triples checked", d["triples"], 20000)
    except Exception as e:
        rep.inc(f"value leg: {type(e).__name__}: {e}"[:80])
        ntypes = 0
    by_type = {}
    pk_judged = {}
    cases = set()
    for res in parallel_map(sql_case, [(seed, i) for i in range(nsql)]):
        rep.evaluations += res["evals"]
        if res["inconclusive"]:
            rep.inc(res["typ"] + ": " + res["inconclusive"][:40])
            continue
        by_type[res["typ"]] = by_type.get(res["typ"], 0) + 1
        pk_judged[res["typ"]] = pk_judged.get(res["typ"], 0) + res.get("pk_judged", 0)
        cases.add(res["distinct"])
        rep.sample(dict(type=res["typ"]), limit=2)
        for v in res["violations"]:
            rep.add_violation(Violation(v["signature"], v["what"], res["witness"]))
    rep.distinct = len(cases) + ntypes
    rep.coverage.update(sql_cases_per_type=by_type, keyed_table_storage_orders_judged_per_type=pk_judged)
    rep.floor("keyed-table storage orders judged", sum(pk_judged.values()), nsql // 2)
    rep.floor("SQL coherence cases", len(cases), nsql // 2)
    rep.assumptions = ["calendar values are drawn from ranges reachable through SQL literals (timestamps in whole seconds)",
                       "cells are compared as printed; decimals are normalised by value and -0.0 is identified with 0.0, as the engine's equality does"]
    if tier == "thorough" and not os.environ.get("VERIF_OVERLAY"):
        import sanitize
        sanitize.overlay(rep, "asan", timeout=5400)
        sanitize.miri(rep, [["values", seed, 0]], timeout=3000, sig_prefix="value:")
    return rep.finish()


def replay(path):
    w = json.load(open(path))["witness"]
    if w.get("value_leg"):
        return subprocess.run([RLV, "kern", "values", str(w["seed"]), str(w["extra"])]).returncode
    res = sql_case((w["seed"], w["idx"]))
    for v in res["violations"]:
        print("VIOLATION-REPRO", v)
    return 1 if res["violations"] else 0
