"""Executable reference model of tables: schema + multiset of rows; simple predicates with SQL
three-valued logic evaluated independently of risinglight."""
from gen import Col, Table, lit, gen_value, INT_TYPES


class Pred:
    """A predicate with its SQL text and a python evaluator (returns True/False/None)."""

    def __init__(self, sql, fn):
        self.sql, self.fn = sql, fn


def _cmp(op, a, b):
    if a is None or b is None:
        return None
    return {"=": a == b, "<>": a != b, "<": a < b, "<=": a <= b, ">": a > b, ">=": a >= b}[op]


def gen_pred(rng, table, depth=0):
    cols = [(i, c) for i, c in enumerate(table.cols) if c.typ in INT_TYPES or c.typ == "VARCHAR"]
    kind = rng.choice(["cmp", "cmp", "cmp", "isnull", "and", "or", "true"] if depth == 0 else ["cmp", "cmp", "isnull"])
    if not cols:
        kind = "true"
    if kind == "true":
        return Pred("1 = 1", lambda r: True)
    if kind == "cmp":
        i, c = rng.choice(cols)
        op = rng.choice(["=", "<>", "<", "<=", ">", ">="])
        v = gen_value(rng, Col("x", c.typ, nullable=False))
        return Pred(f"{c.name} {op} {lit(v)}", lambda r, i=i, op=op, v=v: _cmp(op, r[i], v))
    if kind == "isnull":
        i, c = rng.choice(cols)
        neg = rng.random() < 0.5
        return Pred(f"{c.name} IS {'NOT ' if neg else ''}NULL", lambda r, i=i, neg=neg: (r[i] is not None) if neg else (r[i] is None))
    a, b = gen_pred(rng, table, depth + 1), gen_pred(rng, table, depth + 1)
    if kind == "and":
        def f(r):
            x, y = a.fn(r), b.fn(r)
            if x is False or y is False:
                return False
            if x is None or y is None:
                return None
            return True
        return Pred(f"({a.sql}) AND ({b.sql})", f)

    def g(r):
        x, y = a.fn(r), b.fn(r)
        if x is True or y is True:
            return True
        if x is None or y is None:
            return None
        return False
    return Pred(f"({a.sql}) OR ({b.sql})", g)


class ModelTable:
    def __init__(self, table):
        self.table = table
        self.rows = []      # list of tuples (python values)

    def insert(self, rows):
        self.rows.extend(tuple(r) for r in rows)

    def delete(self, pred):
        keep = [r for r in self.rows if pred.fn(r) is not True]
        n = len(self.rows) - len(keep)
        self.rows = keep
        return n


def py_row(row, table):
    """Model row -> the normalised form risinglight results take (bool->int etc.)."""
    out = []
    for v, c in zip(row, table.cols):
        if isinstance(v, bool):
            out.append(int(v))
        elif v is None:
            out.append(None)
        elif c.typ == "DOUBLE":
            out.append("f:" + repr(float(v)))
        elif c.typ.startswith("DECIMAL"):
            from decimal import Decimal
            out.append("d:" + format(Decimal(str(v)).normalize(), "f"))
        elif c.typ == "DATE":
            out.append("D:" + str(v))
        else:
            out.append(v)
    return tuple(out)
