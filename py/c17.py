"""C17 - every accepted query is planned into an executable plan.

Generated statements (biased to correlated / nested subqueries, multi-way joins, aggregates over
joins, DISTINCT, ORDER/LIMIT) are bound, optimized and inspected inside the runner: a walker over
the optimized RecExpr looks for operators the executor lacks (apply / in / exists / max1row,
merge join semi/anti), join key lists of different length, residual conditions where the
executor asserts `true`; the output types of the optimized plan must equal those of the bound
plan; building and running the plan on small data must not panic. Optimizer panics and
executor-build panics are violations.

Termination is decided on CPU time, not wall clock: egg's own limits (5 s per run, 9 runs over the
three stages) bound a returning optimisation by about 45 CPU-seconds; a statement on which the
runner process itself has burnt CPU_BUDGET CPU-seconds without answering is a violation
(`optimizer-does-not-return` when EXPLAIN alone exhausts the budget too, else
`plan-execution-does-not-return`). A wall-clock watchdog firing with less CPU consumed (a starved
runner) stays inconclusive."""
import random

from common import Report, Violation, parallel_map, h, run_sentinels, panic_site
from gen import gen_schema, setup_statements, QueryGen
from sqlcase import RL, DISK_LAYOUTS

CPU_BUDGET = 300.0   # CPU-seconds; > 6x the sum of egg's configured time limits


def does_not_return(setup, engine, layout, sql):
    """classify a statement that exhausted the CPU budget: is it the optimizer (EXPLAIN alone)?"""
    rl = RL(engine, layout)
    try:
        for s in setup:
            rl.sql(s)
        try:
            rl.cmd({"op": "sql", "sql": "EXPLAIN " + sql, "db": "main"}, timeout=60, cpu_budget=CPU_BUDGET)
        except Exception as e:
            if type(e).__name__ == "RunnerCpuExhausted":
                return "optimizer-does-not-return"
            return "does-not-return:unclassified"
        return "plan-execution-does-not-return"
    finally:
        rl.close()


TYPES = ("INT", "BIGINT", "BOOLEAN", "VARCHAR", "DOUBLE", "DECIMAL(10,2)", "DATE")
FEATURES = dict(full_join=True, not_in_sub=True, like=True, bool_col_cond=True, offset_no_limit=True, case_no_else=True,
                corr_in_sub=True, null_lit=True, cross=True, derived_limit=True, scalar_sub=True)


def _site(x):
    import re
    return re.sub(r"/root/\.cargo/registry/src/[^/]+/", "~cargo/", x.replace("/repo/", ""))


def judge(r, sql):
    """plancheck response -> list of (signature, what)"""
    out = []
    if not r.get("ok") or not r.get("accepted"):
        return None
    if r.get("optimize_panics"):
        site = panic_site(str(r["optimize_panics"]))
        return [(f"optimizer-panics:{site}", f"{sql[:200]}: {r['optimize_panics']}")]
    for i in r.get("issues", []):
        out.append((f"plan-not-executable:{i}", f"{sql[:200]}: optimized plan {r.get('plan', '')[:200]}"))
    tb, to = r.get("types_bound"), r.get("types_optimized")
    if tb is not None and to is not None and tb != to:
        out.append(("output-types-change", f"{sql[:200]}: bound {tb} optimized {to}"))
    ex = r.get("exec")
    if isinstance(ex, str) and ex.startswith("panic"):
        site = panic_site(ex.split("panic: ")[1]) if "panic: " in ex else "?"
        msg = ex.split("|")[-1][:60]
        unresolved = any(i.startswith(("contains-in-subquery", "contains-exists", "contains-apply")) for i in r.get("issues", []))
        if site.endswith("column-not-found-from-input"):
            if unresolved:
                # a consequence of the unresolved subquery form already reported above (its correlated
                # column is no input of the plan under `in` / `exists`), not a finding of its own
                return out
            # where the plan refers to a column its input does not produce (located by the harness's own
            # walker; the verdict itself is the real executor's panic)
            site += "@" + unresolved_class(r.get("unresolved") or [])
        out.append((f"executor-panics:{site}", f"{sql[:220]}: {msg} plan {r.get('plan', '')[:160]}"))
    return out


def unresolved_class(labels):
    """labels: `<operator>:<role>:via-ref|direct[:over-empty]`.
    via-ref    - the column sits inside a `ref` that is evaluated inline because the plan that produced it is gone
    over-empty - the operator sits above an `empty` plan (all alternatives cost 0, an ill-formed one is extracted)
    otherwise the first place where a column is referred to directly: `<operator>:<role>:direct`"""
    if not labels:
        return "unlocated"
    if any(x.endswith(":over-empty") for x in labels):
        return "over-empty"
    direct = [x for x in labels if x.endswith(":direct")]
    return direct[0] if direct else "via-ref"


def has_subquery(sql):
    import re
    return bool(re.search(r"\b(IN|EXISTS)\s*\(\s*SELECT\b|[=<>]\s*\(\s*SELECT\b", sql, re.I))


def run_case(args):
    seed, idx, nq = args
    rng = random.Random(f"c17-{seed}-{idx}")
    tables = gen_schema(rng, types=TYPES, pk_types=("INT",), max_cols=4, pk_p=0.5)
    stmts = setup_statements(rng, tables, max_rows=rng.choice([0, 6, 12]), max_stmts=3, wide_pk=True)
    if rng.random() < 0.5:
        for t in tables:
            stmts.append(f"SET mock_rowcount_{t.name} = {rng.choice([0, 1, 10, 1000, 100000])}")
    engine = "disk" if rng.random() < 0.4 else "mem"
    res = dict(violations=[], evals=0, accepted=0, rejected=0, executed=0, exec_errors=0, distinct=[], inconclusive=None, tags={}, sample=None, slow=0)
    layout = rng.choice(DISK_LAYOUTS[:4])
    rl = RL(engine, layout)
    try:
        for s in stmts:
            rl.sql(s)
        g = QueryGen(rng, tables, FEATURES)
        for _ in range(nq):
            q = g.query()
            try:
                r = rl.cmd({"op": "plancheck", "sql": q.sql}, timeout=60, cpu_budget=CPU_BUDGET)
            except Exception as e:
                if type(e).__name__ == "RunnerCpuExhausted":
                    sig = does_not_return(stmts, engine, layout, q.sql)
                    res["violations"].append(dict(signature=sig, what=f"{q.sql[:300]}: no answer after {e.cpu:.0f} CPU-seconds of the runner process",
                                                  sql=q.sql, setup=stmts, engine=engine))
                elif type(e).__name__ == "RunnerTimeout":
                    res["inconclusive"] = "watchdog during plancheck"
                else:
                    res["violations"].append(dict(signature="process-dies-while-planning", what=f"{q.sql[:200]}: {e}", sql=q.sql, setup=stmts, engine=engine))
                break
            res["evals"] += 1
            v = judge(r, q.sql)
            if v is None:
                res["rejected"] += 1
                continue
            res["accepted"] += 1
            if r.get("exec") == "ok":
                res["executed"] += 1
                res["distinct"].append(h(q.sql))
            elif isinstance(r.get("exec"), str) and r["exec"].startswith("error"):
                res["exec_errors"] += 1
            for t in q.tags:
                res["tags"][t] = res["tags"].get(t, 0) + 1
            for sig, what in v:
                res["violations"].append(dict(signature=sig, what=what, sql=q.sql, setup=stmts, engine=engine))
        res["sample"] = q.sql[:200]
        # extreme statistics (a stream of its own, after everything else): row estimates so large that the cost of the cross joins
        # around a derived table overflows to infinity, while the subquery inside the derived table has finite costs. Whatever
        # the optimizer does when costs stop being comparable, the subquery form must still be lowered to a join.
        rng2 = random.Random(f"c17b-{seed}-{idx}")
        if rng2.random() < 0.25:
            big = rng2.choice([2000000000, 4000000000, 4294967295])
            for i in range(1, 7):
                rl.sql(f"CREATE TABLE xs{i}(a INT, b INT)")
                rl.sql(f"INSERT INTO xs{i} VALUES (1, 10), (2, 20)")
                rl.sql(f"SET mock_rowcount_xs{i} = {big}")
            inner = [
                "SELECT a FROM xs1 WHERE EXISTS (SELECT * FROM xs6 WHERE xs6.a = xs1.a)",
                "SELECT a FROM xs1 WHERE NOT EXISTS (SELECT * FROM xs6 WHERE xs6.a = xs1.a AND xs6.b > 10)",
                "SELECT a FROM xs1 WHERE a IN (SELECT a FROM xs6)",
                "SELECT a FROM xs1 WHERE b > (SELECT MIN(b) FROM xs6)",
                "SELECT a FROM xs1 WHERE b = (SELECT MAX(b) FROM xs6 WHERE xs6.a = xs1.a)",
            ]
            for _ in range(2):
                nx = rng2.choice([3, 4, 4])
                sql = f"SELECT x.a FROM ({rng2.choice(inner)}) x, " + ", ".join(f"xs{i}" for i in range(2, 2 + nx))
                try:
                    r = rl.cmd({"op": "plancheck", "sql": sql}, timeout=60, cpu_budget=CPU_BUDGET)
                except Exception as e:
                    res["inconclusive"] = f"extreme-statistics leg: {type(e).__name__}"
                    break
                res["evals"] += 1
                v = judge(r, sql)
                if v is None:
                    continue
                res["tags"]["extreme-statistics"] = res["tags"].get("extreme-statistics", 0) + 1
                if "inf" in str(r.get("plan", "")) or "inf" in str(r.get("cost", "")):
                    res["tags"]["extreme-statistics:infinite-cost-seen"] = res["tags"].get("extreme-statistics:infinite-cost-seen", 0) + 1
                for sig, what in v:
                    res["violations"].append(dict(signature=sig + ":extreme-statistics", what=f"[mock_rowcount = {big}] " + what, sql=sql,
                                                  setup=[x for i in range(1, 7) for x in (f"CREATE TABLE xs{i}(a INT, b INT)", f"INSERT INTO xs{i} VALUES (1, 10), (2, 20)", f"SET mock_rowcount_xs{i} = {big}")], engine=engine))
    except Exception as e:
        res["inconclusive"] = f"harness: {type(e).__name__}: {e}"
    finally:
        rl.close()
    return res


def sentinel(w):
    rl = RL(w.get("engine", "mem"), DISK_LAYOUTS[0])
    try:
        for s in w["setup"]:
            rl.sql(s)
        try:
            r = rl.cmd({"op": "plancheck", "sql": w["sql"]}, timeout=60, cpu_budget=CPU_BUDGET)
        except Exception as e:
            if type(e).__name__ == "RunnerCpuExhausted":
                return [(does_not_return(w["setup"], w.get("engine", "mem"), DISK_LAYOUTS[0], w["sql"]),
                         f"{w['sql'][:300]}: no answer after {e.cpu:.0f} CPU-seconds of the runner process")]
            raise
        return judge(r, w["sql"]) or []
    finally:
        rl.close()


def run(tier, seed):
    rep = Report("C17", tier, seed, "exploration")
    n, nq = (320, 25) if tier == "quick" else (6000, 30)
    rep.rule = ("generated statements with every generator feature on (correlated IN, NOT IN, EXISTS, scalar subqueries, "
                "full/right/left joins, cross joins, aggregates, DISTINCT, ORDER/LIMIT/OFFSET, CTE, derived tables with LIMIT, bare "
                "boolean conditions) on memory and disk engines with real or mocked statistics; distinct non-trivial = distinct "
                "accepted statements whose optimized plan was built and executed")
    tot = dict(accepted=0, rejected=0, executed=0, exec_errors=0)
    tags = {}
    for res in parallel_map(run_case, [(seed, i, nq) for i in range(n)]):
        rep.evaluations += res["evals"]
        for k in tot:
            tot[k] += res[k]
        rep.distinct.update(res["distinct"])
        for k, v in res["tags"].items():
            tags[k] = tags.get(k, 0) + v
        if res["inconclusive"]:
            rep.inc(res["inconclusive"][:50])
        if res["sample"]:
            rep.sample(res["sample"], limit=4)
        for v in res["violations"]:
            rep.add_violation(Violation(v["signature"], v["what"], dict(sql=v["sql"], setup=v.get("setup", []), engine=v.get("engine", "mem"))))
    run_sentinels(rep, sentinel)
    rep.coverage.update(statements_accepted_by_binder=tot["accepted"], statements_rejected_by_binder=tot["rejected"],
                        plans_built_and_executed=tot["executed"], plans_whose_execution_returned_an_error=tot["exec_errors"],
                        features_of_accepted_statements=tags)
    rep.floor("accepted statements", tot["accepted"], n * nq // 4)
    rep.floor("plans executed", tot["executed"], n * nq // 6)
    rep.assumptions = ["an execution that returns an error (type, overflow) is not a planning defect; only panics are",
                       "termination is bounded progress on CPU time: a statement is non-terminating when the runner process burnt 300 CPU-seconds on it "
                       "(egg's own limits allow about 45); a wall-clock watchdog with less CPU consumed is inconclusive"]
    return rep.finish()


def replay(path):
    import json
    w = json.load(open(path))["witness"]
    out = sentinel(w)
    for s in out:
        print("VIOLATION-REPRO", s)
    return 1 if out else 0
