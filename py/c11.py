"""C11 - all physical implementations of an operator agree.

Hand-built plans (through the public Expr enum) for the same logical operator run through the
real executor::build on tables of the live database: nested-loop / hash / merge join for every
join type (merge join on sorted inputs), simple / hash / sort aggregation, limit-over-order vs
top-N. The implementations must agree as multisets (top-N on the key sequence); a 30-line Python
nested-loop / group-by reference names the side that is wrong."""
import random

from common import Report, Violation, parallel_map, h, run_sentinels, cell_key, panic_site
from sqlcase import RL, norm_rows, ms


def lit(v):
    return "NULL" if v is None else str(v)


def gen_tables(rng):
    """l(k int, k2 bigint, v int), r(k int, k2 bigint, w int); several inserts = several chunks"""
    def rows(n, dom):
        return [(rng.choice(dom), rng.choice(dom), rng.randint(0, 9)) for _ in range(n)]
    dom = rng.choice([[None, 1, 2, 3], [None, None, 1], [1, 2, 3, 4, 5, 6, 7, 8], [None, 1, 1, 1, 2], list(range(40)) + [None]])
    nl = rng.choice([0, 1, 3, 8, 30, 1500, 2600])
    nr = rng.choice([0, 1, 3, 8, 30, 200]) if nl > 100 else rng.choice([0, 1, 3, 8, 30, 1500])
    L, R = rows(nl, dom), rows(nr, dom)
    # the second key column of r is usually a BIGINT (INT vs BIGINT keys); sometimes a type `=` compares numerically with an
    # integer while a hash table sees different values (DOUBLE, DECIMAL) or a narrower integer
    k2r = rng.choice(["bigint"] * 5 + ["double", "decimal(10,2)", "smallint"])
    stmts = ["create table l(k int, k2 bigint, v int)", f"create table r(k int, k2 {k2r}, w int)"]
    for name, data in (("l", L), ("r", R)):
        i = 0
        while i < len(data):
            n = rng.choice([1, 7, 1024, 1025, 300])
            part = data[i:i + n]
            stmts.append(f"insert into {name} values " + ", ".join("(" + ", ".join(lit(v) for v in row) + ")" for row in part))
            i += n
    return L, R, stmts


def numify(rows):
    """DOUBLE / DECIMAL cells that hold whole numbers compare as the integers the reference holds."""
    def cell(c):
        if isinstance(c, str) and c[:2] in ("f:", "d:"):
            try:
                x = float(c[2:])
                return int(x) if x == int(x) else c
            except ValueError:
                return c
        return c
    return [tuple(cell(c) for c in row) for row in rows]


def ref_join(L, R, jt, lk, rk, residual):
    def match(a, b):
        for i, j in zip(lk, rk):
            if a[i] is None or b[j] is None or a[i] != b[j]:
                return False
        if residual:
            x, y = a[residual["l"]], b[residual["r"]]
            if x is None or y is None:
                return False
            return {"<": x < y, ">": x > y, "<>": x != y, "<=": x <= y}[residual["op"]]
        return True
    out = []
    rmatched = [False] * len(R)
    for a in L:
        m = False
        for j, b in enumerate(R):
            if match(a, b):
                m = True
                rmatched[j] = True
                if jt in ("inner", "left_outer", "right_outer", "full_outer"):
                    out.append(tuple(a) + tuple(b))
        if jt == "semi" and m:
            out.append(tuple(a))
        if jt == "anti" and not m:
            out.append(tuple(a))
        if not m and jt in ("left_outer", "full_outer"):
            out.append(tuple(a) + (None,) * 3)
    if jt in ("right_outer", "full_outer"):
        for j, b in enumerate(R):
            if not rmatched[j]:
                out.append((None,) * 3 + tuple(b))
    return out


def ref_agg(X, keys, aggs):
    groups = {}
    for row in X:
        groups.setdefault(tuple(row[k] for k in keys), []).append(row)
    if not keys and not groups:
        groups[()] = []
    out = []
    for k, rows in groups.items():
        vals = []
        for f, c in aggs:
            col = [r[c] for r in rows if r[c] is not None]
            if f == "sum":
                vals.append(sum(col) if col else None)
            elif f == "count":
                vals.append(len(col))
            elif f == "min":
                vals.append(min(col) if col else None)
            elif f == "max":
                vals.append(max(col) if col else None)
            elif f == "count_distinct":
                vals.append(len(set(col)))
            else:
                vals.append(len(rows))
        out.append(tuple(k) + tuple(vals))
    return out


def run_case(args):
    seed, idx, nops = args
    rng = random.Random(f"c11-{seed}-{idx}")
    L, R, stmts = gen_tables(rng)
    res = dict(violations=[], evals=0, kinds={}, distinct=[], inconclusive=None, sample=None)
    rl = RL("mem")
    try:
        for s in stmts:
            r = rl.sql(s, timeout=120)
            if not r["ok"]:
                res["inconclusive"] = "setup failed: " + r.get("err", "")[:60]
                return res
        big = len(L) * max(1, len(R)) > 600000
        rng2 = random.Random(f"c11b-{seed}-{idx}")   # shapes added later draw from a stream of their own
        for opno in range(nops + (2 if L else 0)):
            kind = rng.choice(["join"] * 5 + ["agg"] * 3 + ["topn"] * 2) if opno < nops else "aggfl"
            if kind == "aggfl":
                # order-dependent aggregates (`first` is what DISTINCT ON is planned into): the simple and the hash implementation
                # read the same scan in the same order, so they must agree with each other (no reference: mutual)
                aggs = [(rng2.choice(["first", "last", "first", "last", "sum", "rowcount"]), rng2.choice([0, 0, 1, 2])) for _ in range(rng2.randint(1, 3))]
                if not any(f in ("first", "last") for f, _ in aggs):
                    aggs[0] = (rng2.choice(["first", "last"]), 0)
                cmd = dict(op="opimpl", kind="agg", keys=[], aggs=[list(a) for a in aggs], table="l")
                want = None
                label = f"agg keys=[] aggs={aggs}"
                ordered = None
            elif kind == "join":
                jt = rng.choice(["inner", "left_outer", "right_outer", "full_outer", "semi", "anti"])
                nk = rng.choice([1, 1, 2])
                cols = rng.sample([0, 1], nk) if nk == 2 else [rng.choice([0, 1])]
                lk = cols
                rk = [rng.choice([0, 1]) for _ in cols] if rng.random() < 0.4 else list(cols)   # INT vs BIGINT keys
                residual = None
                if jt in ("semi", "anti") and rng.random() < 0.5:
                    residual = dict(l=2, r=2, op=rng.choice(["<", ">", "<>", "<="]))
                cmd = dict(op="opimpl", kind="join", jtype=jt, lkeys=lk, rkeys=rk, residual=residual, ltable="l", rtable="r")
                if big and jt in ("inner", "left_outer", "right_outer", "full_outer") and nk == 1 and len(set(x[lk[0]] for x in L)) < 6:
                    continue   # quadratic blow-up
                want = ms(ref_join(L, R, jt, lk, rk, residual))
                label = f"{jt} join on l{lk}=r{rk}" + (f" and l.v {residual['op']} r.w" if residual else "")
                ordered = None
            elif kind == "agg":
                keys = rng.choice([[], [0], [1], [0, 1]])
                if not keys and not L:
                    keys = [0]   # agg == hashagg([]) is only claimed for a non-empty input
                aggs = [(rng.choice(["sum", "count", "min", "max", "count_distinct", "rowcount"]), rng.choice([0, 2])) for _ in range(rng.randint(1, 3))]
                cmd = dict(op="opimpl", kind="agg", keys=keys, aggs=[list(a) for a in aggs], table="l")
                want = ms(ref_agg(L, keys, aggs))
                label = f"agg keys={keys} aggs={aggs}"
                ordered = None
            else:
                keys = [(c, rng.random() < 0.4) for c in rng.sample([0, 1, 2], rng.randint(1, 3))]
                # (incl. windows around the executor's 1024-row processing window)
                limit = rng.choice([None, 0, 1, 3, len(L), len(L) + 5, 1023, 1025, 1500])
                offset = rng.choice([0, 0, 1, 2, len(L), 1020, 1024, 1030])
                cmd = dict(op="opimpl", kind="topn", keys=[[c, d] for c, d in keys], limit=limit, offset=offset, table="l")
                want = None
                label = f"order {keys} limit {limit} offset {offset}"
                ordered = keys
            try:
                r = rl.cmd(cmd, timeout=180)
            except Exception as e:
                res["inconclusive"] = f"runner: {type(e).__name__}"
                break
            res["evals"] += 1
            res["kinds"][kind] = res["kinds"].get(kind, 0) + 1
            results = r.get("results", {})
            got = {}
            for imp, v in results.items():
                if not v.get("ok"):
                    pan = panic_site((v.get("panics"))[-1]) if v.get("panics") else ""
                    res["violations"].append(dict(signature=f"{kind}:{imp}-fails:{pan or v.get('err', '')[:30]}", what=f"{label}: {imp} failed: {v.get('err')} {v.get('panics')} (|l|={len(L)}, |r|={len(R)})"))
                    continue
                got[imp] = numify(norm_rows(v["rows"]))
            if ordered is not None:
                a, b = got.get("limit_order"), got.get("topn")
                if a is not None and b is not None:
                    ka = [tuple(x[c] for c, _ in ordered) for x in a]
                    kb = [tuple(x[c] for c, _ in ordered) for x in b]
                    mm = offset
                    exp_n = max(0, len(L) - mm) if limit is None else min(limit, max(0, len(L) - mm))
                    if ka != kb or len(b) != exp_n:
                        res["violations"].append(dict(signature="topn-vs-limit-order", what=f"{label}: limit(order) keys {ka[:6]} ({len(a)} rows) vs topn {kb[:6]} ({len(b)} rows), expected {exp_n} rows"))
                    else:
                        res["distinct"].append(h([idx, label]))
                continue
            if kind == "aggfl":
                if len(got) >= 2 and len({repr(ms(rows)) for rows in got.values()}) > 1:
                    res["violations"].append(dict(signature="agg:first-last-implementations-differ",
                                                  what=f"{label} over {len(L)} rows (first rows {L[:3]}, last rows {L[-3:]}): " + "; ".join(f"{i} -> {ms(r)}" for i, r in got.items())))
                elif len(got) >= 2:
                    res["distinct"].append(h([idx, label]))
                continue
            bad = [imp for imp, rows in got.items() if ms(rows) != want]
            if bad:
                for imp in bad:
                    rows = ms(got[imp])
                    missing = [x for x in want if x not in rows][:3]
                    extra = [x for x in rows if x not in want][:3]
                    res["violations"].append(dict(signature=f"{kind}:{imp}-differs" + (f":{jt}" if kind == "join" else ""),
                                                  what=f"{label}: {imp} returned {len(rows)} rows, reference {len(want)}; missing {missing} unexpected {extra}; agreeing implementations: {[i for i in got if i not in bad]}"))
            elif len(got) >= 2:
                res["distinct"].append(h([idx, label]))
            if len(res["violations"]) > 6:
                break
        res["sample"] = dict(l_rows=len(L), r_rows=len(R), inserts=len(stmts) - 2)
    except Exception as e:
        res["inconclusive"] = f"harness: {type(e).__name__}: {e}"
    finally:
        rl.close()
    res["witness"] = dict(seed=seed, idx=idx, nops=nops)
    return res


def sentinel(w):
    res = run_case((w["seed"], w["idx"], w["nops"]))
    return [(v["signature"], v["what"]) for v in res["violations"]]


def run(tier, seed):
    rep = Report("C11", tier, seed, "exploration")
    n, nops = (160, 14) if tier == "quick" else (3000, 20)
    rep.rule = ("tables l, r of 0..2600 rows filled by inserts of 1/7/300/1024/1025 rows (chunking), keys over small domains with "
                "NULLs and duplicates, INT vs BIGINT keys, 1-2 key columns, residual conditions on semi/anti joins; operators: 6 "
                "join types x {nested-loop, hash, merge}, aggregation {simple, hash, sort} with sum/count/min/max/count distinct, "
                "limit(order) vs top-N; distinct non-trivial = distinct (tables, operator case) on which at least two "
                "implementations ran and agreed with the reference")
    kinds = {}
    for res in parallel_map(run_case, [(seed, i, nops) for i in range(n)]):
        rep.evaluations += res["evals"]
        rep.distinct.update(res["distinct"])
        for k, v in res["kinds"].items():
            kinds[k] = kinds.get(k, 0) + v
        if res["inconclusive"]:
            rep.inc(res["inconclusive"][:50])
        if res["sample"]:
            rep.sample(res["sample"], limit=4)
        for v in res["violations"]:
            rep.add_violation(Violation(v["signature"], v["what"], res["witness"]))
    run_sentinels(rep, sentinel)
    rep.coverage.update(operator_cases=kinds)
    rep.floor("operator cases with agreeing implementations", len(rep.distinct), n * nops // 3)
    rep.assumptions = ["hash/merge join of inner/outer type are built with a `true` residual (the executor asserts it)",
                       "the merge join executor has no semi/anti variant"]
    return rep.finish()


def replay(path):
    import json
    w = json.load(open(path))["witness"]
    out = sentinel(w)
    for s in out[:5]:
        print("VIOLATION-REPRO", s)
    return 1 if out else 0
