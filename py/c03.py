"""C03 - acknowledged changes survive a clean shutdown and reopen.

Histories of DDL/DML (+ compaction passes) interleaved with shutdown+reopen run against the
real on-disk Database in a fresh runner; a Python table model applies the acknowledged
statements; after every reopen the catalog and every table's row multiset must equal the model
and follow-up statements must succeed."""
import random
import sys

from common import (Report, Violation, parallel_map, h, log)
from gen import Col, Table, gen_rows, lit, INT_TYPES
from model import ModelTable, gen_pred, py_row
from sqlcase import sql_retry, RL, DISK_LAYOUTS, ms

TYPES = ("INT", "BIGINT", "SMALLINT", "BOOLEAN", "VARCHAR", "DOUBLE", "DECIMAL(10,2)", "DATE")
NAMES = ["ta", "tb", "tc", "td"]


def gen_table(rng, name):
    n = rng.randint(1, 4)
    cols = []
    for i in range(n):
        t = rng.choice(TYPES)
        cols.append(Col(f"{'pqrs'[i]}", t, nullable=rng.random() < 0.75))
    x = rng.random()
    ints = [c for c in cols if c.typ == "INT"]
    if x < 0.4 and ints:
        ints[0].pk = True
        ints[0].nullable = False
    elif x < 0.6 and ints:
        # the key declared by a table constraint, over one or two columns
        keys = ints[:rng.choice([1, 2])]
        for c in keys:
            c.nullable = False
            c.implied_not_null = True
        return Table(name, cols, pk_constraint=[c.name for c in keys])
    return Table(name, cols)


def type_name(t):
    return {"INT": "int", "BIGINT": "bigint", "SMALLINT": "smallint", "BOOLEAN": "boolean",
            "VARCHAR": "string", "DOUBLE": "double", "DATE": "date"}.get(t, t.lower())


def run_case(args):
    seed, idx, nsteps, opts = args
    rng = random.Random(f"c03-{seed}-{idx}")
    layout = rng.choice(DISK_LAYOUTS[:4])
    allow_view_before_table = opts.get("view_before_table", False)
    res = dict(idx=idx, seed=seed, stmts=0, reopens=0, violations=[], features=set(), history=[],
               inconclusive=None, steps_seen={})
    rl = RL("disk", layout)
    model = {}          # name -> ModelTable
    aux_since_reopen = False   # a view/index was created since the last reopen
    uid = [0]
    hist = res["history"]

    def fail(sig, what):
        res["violations"].append(dict(signature=sig, what=what))

    def check_state(tag):
        # catalog
        r = rl.sql("select * from pg_catalog.pg_tables")
        if not r["ok"]:
            fail("catalog-query-failed", f"{tag}: pg_tables failed: {r.get('err')}")
            return False
        names = sorted(x[3] for x in r["rows"] if x[1] == "postgres" and not str(x[3]).startswith("v_"))
        if names != sorted(model):
            fail("table-set-differs", f"{tag}: tables {names} != model {sorted(model)}")
            return False
        for name, mt in model.items():
            r = rl.sql(f"select * from pg_catalog.pg_attribute where table_name = '{name}'")
            if not r["ok"]:
                fail("catalog-query-failed", f"{tag}: pg_attribute failed: {r.get('err')}")
                return False
            got = sorted((x[2], x[3], x[4], bool(x[5])) for x in r["rows"])
            want = sorted((i, c.name, type_name(c.typ), (not c.nullable) or c.pk) for i, c in enumerate(mt.table.cols))
            if got != want:
                fail("schema-differs", f"{tag}: {name} columns {got} != {want}")
                return False
            r = rl.sql(f"select * from {name}")
            if not r["ok"]:
                fail("select-failed-after-reopen" if tag.startswith("reopen") else "select-failed",
                     f"{tag}: select * from {name}: {r.get('kind')} {r.get('err')} {r.get('panics')}")
                return False
            want_rows = ms([py_row(x, mt.table) for x in mt.rows])
            if ms(r["rows"]) != want_rows:
                got_rows = ms(r["rows"])
                missing = [x for x in want_rows if x not in got_rows][:3]
                extra = [x for x in got_rows if x not in want_rows][:3]
                fail("rows-differ", f"{tag}: {name}: {len(got_rows)} rows vs model {len(want_rows)}; missing {missing} extra {extra}")
                return False
        return True

    # "empty-out episode" (a fifth of the histories start with it): a table gets several row-sets, loses
    # every row, is compacted to nothing and the database is reopened twice without any statement in
    # between - then rows arrive again. Row-set ids, delete vectors and manifest entries of the emptied
    # table must not leak into what is inserted afterwards.
    forced = []
    if rng.random() < 0.2:
        forced = ["create", "insert", "insert"] + (["insert"] if rng.random() < 0.5 else []) + \
                 ["delete_all", "tick", "tick", "reopen_quiet", "reopen_quiet", "insert", "check", "reopen_quiet", "insert", "check"]
    try:
        for step in range(nsteps + len(forced)):
            kinds = ["create"] * 2 + ["insert"] * 5 + ["delete"] * 3 + ["drop"] + ["tick"] * 2 + ["reopen"] * 2 + ["view", "function", "index"] + ["delete_all"]
            k = forced.pop(0) if forced else rng.choice(kinds)
            if not model and k in ("insert", "delete", "delete_all", "drop", "view", "index"):
                k = "create"
            quiet = k == "reopen_quiet"
            if quiet:
                k = "reopen"
            if k == "check":
                if not check_state(f"step {step}"):
                    break
                continue
            if k == "create":
                free = [n for n in NAMES if n not in model]
                if not free:
                    continue
                if aux_since_reopen and not allow_view_before_table:
                    # known finding C03 view-or-index-before-create-table: ids drift; see sentinel
                    continue
                t = gen_table(rng, rng.choice(free))
                sql = t.ddl()
                r = rl.sql(sql)
                hist.append((sql, r["ok"]))
                res["stmts"] += 1
                if r.get("dead"):
                    res["inconclusive"] = "runner died: " + r["err"]
                    break
                if r["ok"]:
                    model[t.name] = ModelTable(t)
                    res["features"].add("create")
                    if t.pk():
                        res["features"].add("pk")
            elif k == "insert":
                mt = model[rng.choice(sorted(model))]
                rows = gen_rows(rng, mt.table, n=rng.choice([1, 2, 3, 8, 30]), unique_pk=True, wide_pk=True)
                if mt.table.pk():
                    # keep primary keys unique across statements
                    pki = [i for i, c in enumerate(mt.table.cols) if c.pk][0]
                    have = {x[pki] for x in mt.rows}
                    rows = [x for x in rows if x[pki] not in have]
                if not rows:
                    continue
                vals = ", ".join("(" + ", ".join(lit(v, c.typ) for v, c in zip(x, mt.table.cols)) + ")" for x in rows)
                sql = f"insert into {mt.table.name} values {vals}"
                r = rl.sql(sql)
                hist.append((sql, r["ok"]))
                res["stmts"] += 1
                if r.get("dead"):
                    res["inconclusive"] = "runner died: " + r["err"]
                    break
                if r["ok"]:
                    mt.insert(rows)
                    res["features"].add("insert")
                    if r["rows"] != [(len(rows),)]:
                        fail("insert-count", f"insert reported {r['rows']} for {len(rows)} rows")
                        break
            elif k == "delete_all":
                mt = model[rng.choice(sorted(model))]
                sql = f"delete from {mt.table.name}"
                r = sql_retry(rl, sql)
                hist.append((sql, r["ok"]))
                res["stmts"] += 1
                if r.get("dead"):
                    res["inconclusive"] = "runner died: " + r["err"]
                    break
                if r["ok"]:
                    n = len(mt.rows)
                    mt.rows = []
                    res["features"].add("delete_all")
                    if r["rows"] != [(n,)]:
                        fail("delete-count", f"{sql}: reported {r['rows']} but the table had {n} rows")
                        break
            elif k == "delete":
                mt = model[rng.choice(sorted(model))]
                p = gen_pred(rng, mt.table)
                sql = f"delete from {mt.table.name} where {p.sql}"
                r = sql_retry(rl, sql)
                hist.append((sql, r["ok"]))
                res["stmts"] += 1
                if r.get("dead"):
                    res["inconclusive"] = "runner died: " + r["err"]
                    break
                if r["ok"]:
                    n = mt.delete(p)
                    res["features"].add("delete")
                    if r["rows"] != [(n,)]:
                        fail("delete-count", f"{sql}: reported {r['rows']} but model removed {n}")
                        break
            elif k == "drop":
                name = rng.choice(sorted(model))
                sql = f"drop table {name}"
                r = rl.sql(sql)
                hist.append((sql, r["ok"]))
                res["stmts"] += 1
                if r["ok"]:
                    del model[name]
                    res["features"].add("drop")
            elif k == "view":
                mt = model[rng.choice(sorted(model))]
                uid[0] += 1
                c = mt.table.cols[0].name
                sql = f"create view v_{uid[0]}(x) as select {c} from {mt.table.name}"
                r = rl.sql(sql)
                hist.append((sql, r["ok"]))
                if r["ok"]:
                    aux_since_reopen = True
                    res["features"].add("view")
            elif k == "index":
                cands = [(mt, c) for mt in model.values() for c in mt.table.cols if c.typ == "INT"]
                if not cands:
                    continue
                mt, c = rng.choice(cands)
                uid[0] += 1
                sql = f"create index i_{uid[0]} on {mt.table.name} using btree ({c.name})"
                r = rl.sql(sql)
                hist.append((sql, r["ok"]))
                if r["ok"]:
                    aux_since_reopen = True
                    res["features"].add("index")
            elif k == "function":
                uid[0] += 1
                sql = f"create function f_{uid[0]}(a int) returns int language sql as 'select a + {uid[0]}'"
                r = rl.sql(sql)
                hist.append((sql, r["ok"]))
                if r["ok"]:
                    res["features"].add("function")
            elif k == "tick":
                rl.cmd({"op": "tick", "secs": 1})
                hist.append(("<compaction pass>", True))
                res["features"].add("compaction")
            elif k == "reopen":
                r = rl.cmd({"op": "reopen"})
                hist.append(("<shutdown+reopen>", r.get("ok")))
                res["reopens"] += 1
                aux_since_reopen = False
                if not r.get("ok"):
                    fail("reopen-failed", f"reopen failed: {r.get('kind')} {r.get('err')} {r.get('panics')}")
                    break
                if not check_state(f"reopen#{res['reopens']}"):
                    break
                # the reopened database accepts further statements (not after every reopen: two
                # reopen cycles in a row without any statement are a history of their own)
                for name, mt in ([] if quiet or rng.random() < 0.3 else list(model.items())[:2]):
                    rows = gen_rows(rng, mt.table, n=1, wide_pk=True)
                    if mt.table.pk():
                        pki = [i for i, c in enumerate(mt.table.cols) if c.pk][0]
                        have = {x[pki] for x in mt.rows}
                        rows = [x for x in rows if x[pki] not in have]
                    if not rows:
                        continue
                    vals = ", ".join(lit(v, c.typ) for v, c in zip(rows[0], mt.table.cols))
                    sql = f"insert into {name} values ({vals})"
                    r = rl.sql(sql)
                    hist.append((sql, r["ok"]))
                    if not r["ok"]:
                        fail("followup-failed", f"after reopen: {sql}: {r.get('kind')} {r.get('err')}")
                        break
                    mt.insert(rows)
            if res["violations"]:
                break
        rng2 = random.Random(f"c03b-{seed}-{idx}")   # episodes added later draw from a stream of their own
        if not res["violations"] and not res["inconclusive"] and rng2.random() < 0.3 and "zf" not in model:
            # "failed bulk insert" episode: an INSERT that reaches storage in two chunks and fails in the second one (NULL into
            # a NOT NULL column at row 1030..) is not acknowledged; whatever it left behind (an unlogged row-set directory) must
            # not stop the table from taking rows after a clean shutdown and reopen
            t = Table("zf", [Col("id", "INT", nullable=False), Col("v", "INT")])
            r = rl.sql(t.ddl())
            hist.append((t.ddl(), r["ok"]))
            if r["ok"]:
                model["zf"] = ModelTable(t)
                if rng2.random() < 0.5:
                    first = [(i, i) for i in range(rng2.choice([1, 3]))]
                    sql = "insert into zf values " + ", ".join(f"({a}, {b})" for a, b in first)
                    r = rl.sql(sql)
                    hist.append((sql, r["ok"]))
                    if r["ok"]:
                        model["zf"].insert(first)
                nbad = rng2.choice([1030, 1100, 2060])
                vals = ", ".join(f"({100 + i}, {i})" for i in range(nbad)) + ", (NULL, 0)" + "".join(f", ({5000 + i}, 1)" for i in range(rng2.choice([0, 5])))
                sql = f"insert into zf values {vals}"
                r = rl.sql(sql, timeout=120)
                hist.append((sql[:80] + f" … ({nbad} rows, then a NULL id)", r["ok"]))
                res["stmts"] += 1
                if r.get("dead"):
                    res["inconclusive"] = "runner died: " + r["err"]
                elif r["ok"]:
                    res["inconclusive"] = "NULL into a NOT NULL column was accepted (C16's subject)"
                else:
                    res["features"].add("failed-multi-chunk-insert")
                    for rep_ in range(rng2.choice([1, 2])):
                        r = rl.cmd({"op": "reopen"})
                        hist.append(("<shutdown+reopen>", r.get("ok")))
                        res["reopens"] += 1
                        if not r.get("ok"):
                            fail("reopen-failed", f"reopen failed: {r.get('kind')} {r.get('err')} {r.get('panics')}")
                            break
                        if not check_state(f"reopen#{res['reopens']}(after failed bulk insert)"):
                            break
                        sql = f"insert into zf values ({9000 + rep_}, 7)"
                        r = rl.sql(sql)
                        hist.append((sql, r["ok"]))
                        if not r["ok"]:
                            fail("followup-failed", f"after a failed bulk insert and a reopen: {sql}: {r.get('kind')} {r.get('err')}")
                            break
                        model["zf"].insert([(9000 + rep_, 7)])
                        if not check_state("after the follow-up insert"):
                            break
        if not res["violations"] and not res["inconclusive"]:
            # final reopen
            r = rl.cmd({"op": "reopen"})
            hist.append(("<shutdown+reopen>", r.get("ok")))
            res["reopens"] += 1
            if not r.get("ok"):
                fail("reopen-failed", f"reopen failed: {r.get('kind')} {r.get('err')} {r.get('panics')}")
            else:
                check_state(f"reopen#{res['reopens']}(final)")
        try:
            st = rl.cmd({"op": "crash_steps"})
            res["steps_seen"] = st.get("steps", {})
        except Exception:
            pass
    except Exception as e:   # harness trouble is never a violation
        res["inconclusive"] = f"harness: {type(e).__name__}: {e}"
    finally:
        rl.close()
    res["features"] = sorted(res["features"])
    res["layout"] = layout
    return res


SENTINELS = [
    # known finding: a view or index created before a later CREATE TABLE shifts table ids
    dict(id="view-or-index-before-create-table",
         stmts=["create table a(x int)", "create view v_1(x) as select x from a", "create table b(y int)",
                "insert into b values (1),(2)"],
         table="b", rows=[(1,), (2,)]),
]


def run_sentinel(s):
    rl = RL("disk", DISK_LAYOUTS[0])
    try:
        for q in s["stmts"]:
            r = rl.sql(q)
            if not r["ok"]:
                return None, f"setup failed: {q}: {r.get('err')}"
        r = rl.cmd({"op": "reopen"})
        if not r.get("ok"):
            return True, f"reopen failed: {r.get('err')} {r.get('panics')}"
        r = rl.sql(f"select * from {s['table']}")
        if not r["ok"] or ms(r["rows"]) != ms(s["rows"]):
            return True, f"after reopen select gives {r.get('rows', r.get('err'))}"
        return False, "holds"
    except Exception as e:
        return None, f"harness: {e}"
    finally:
        rl.close()


def run(tier, seed):
    rep = Report("C03", tier, seed, "exploration")
    n = 480 if tier == "quick" else 6000
    nsteps = 30 if tier == "quick" else 45
    rep.rule = ("random histories of CREATE/DROP TABLE, CREATE VIEW/INDEX/FUNCTION, INSERT, DELETE WHERE p, compaction "
                "passes and shutdown+reopen over 4 storage layouts; distinct = distinct history hashes that contain at "
                "least one reopen after a successful INSERT or DELETE")
    items = [(seed, i, nsteps, {}) for i in range(n)]
    steps = {}
    feats = {}
    reopens = 0
    for res in parallel_map(run_case, items):
        rep.evaluations += 1
        reopens += res["reopens"]
        for k, v in res["steps_seen"].items():
            steps[k] = steps.get(k, 0) + v
        for f in res["features"]:
            feats[f] = feats.get(f, 0) + 1
        if res["inconclusive"]:
            rep.inc(res["inconclusive"][:60])
            continue
        if res["reopens"] and ("insert" in res["features"] or "delete" in res["features"]):
            rep.distinct.add(h(res["history"]))
        rep.sample(dict(layout=res["layout"], history=[x[0][:100] for x in res["history"][:12]]), limit=3)
        for v in res["violations"]:
            rep.add_violation(Violation(v["signature"], v["what"],
                                        dict(seed=res["seed"], idx=res["idx"], nsteps=nsteps, history=res["history"])))
    for s in SENTINELS:
        bad, what = run_sentinel(s)
        if bad:
            rep.add_violation(Violation(s["id"], what, dict(sentinel=s)))
        elif bad is None:
            rep.inc("sentinel:" + what[:40])
    rep.coverage.update(reopen_cycles=reopens, persistence_steps_seen=steps, histories_with_feature=feats)
    rep.floor("reopen cycles checked", reopens, n // 2)
    rep.floor("histories with insert+reopen", len(rep.distinct), n // 4)
    rep.assumptions = ["clean shutdown only (crashes are C04)", "views/indexes/functions are exercised but only base tables are asserted",
                       "CREATE TABLE after a view/index creation in the same open period is exercised only by the sentinel (known finding)"]
    return rep.finish()


def replay(path):
    import json
    w = json.load(open(path))["witness"]
    if "sentinel" in w:
        print(run_sentinel(w["sentinel"]))
        return 0
    res = run_case((w["seed"], w["idx"], w["nsteps"], {}))
    for v in res["violations"]:
        print("VIOLATION-REPRO", v)
    for hline in res["history"]:
        print(hline)
    return 1 if res["violations"] else 0
