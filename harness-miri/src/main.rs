//! Miri entry point: the same kernel-level drivers as `rlv`, on tiny workloads.
#[path = "../../harness/src/iso.rs"]
mod iso;
#[path = "../../harness/src/kern.rs"]
mod kern;
#[path = "../../harness/src/lab.rs"]
mod lab;
#[path = "../../harness/src/vals.rs"]
mod vals;
/// shim of the runner's panic monitor
mod sqlrun {
    use std::sync::Mutex;
    pub static PANICS: Mutex<Vec<String>> = Mutex::new(Vec::new());
    pub fn install_panic_monitor() {
        std::panic::set_hook(Box::new(|info| {
            PANICS.lock().unwrap().push(format!("{info}"));
        }));
    }
    pub fn drain_panics() -> Vec<String> {
        std::mem::take(&mut *PANICS.lock().unwrap())
    }
}

fn main() {
    let args: Vec<String> = std::env::args().collect();
    sqlrun::install_panic_monitor();
    let rc = match args.get(1).map(|s| s.as_str()) {
        Some("ops") => kern::ops_main(&args[2..]),
        Some("values") => vals::main(&args[2..]),
        Some("iso") => iso::iso_main(&args[2..]),
        Some("col") => {
            let rt = tokio::runtime::Builder::new_current_thread().build().unwrap();
            rt.block_on(lab::col_main(&args[2..]))
        }
        Some("range") => {
            let rt = tokio::runtime::Builder::new_current_thread().build().unwrap();
            rt.block_on(lab::range_main(&args[2..]))
        }
        _ => 2,
    };
    std::process::exit(rc);
}
