//! Concurrency driver (C08, C09, C10): several actors (SQL sessions, storage-level readers, a
//! clock that lets compactor/vacuum passes run) share one real on-disk `Database`; the hook
//! handler perturbs the schedule at the instrumented yield points (seeded yields / virtual
//! sleeps / directed gates) and records every trace event with the acting task. The recorded
//! history is judged offline by the Python oracles.
use std::collections::HashMap;
use std::path::PathBuf;
use std::sync::atomic::{AtomicU64, Ordering};
use std::sync::{Arc, Mutex};
use std::time::Duration;

use futures::FutureExt;
use futures::future::BoxFuture;
use risinglight::Database;
use risinglight::storage::{
    ScanOptions, SecondaryStorageOptions, Storage, StorageColumnRef, StorageImpl, Table, Transaction,
    TxnIterator,
};
use risinglight::verif::Handler;
use risinglight_proto::rowset::block_checksum::ChecksumType;
use serde_json::{Value, json};

use crate::enc;
use crate::lab::Rng;

tokio::task_local! {
    static ACTOR: u32;
}

static SEQ: AtomicU64 = AtomicU64::new(0);
fn seq() -> u64 {
    SEQ.fetch_add(1, Ordering::SeqCst)
}
fn actor() -> u32 {
    ACTOR.try_with(|a| *a).unwrap_or(u32::MAX)
}

#[derive(Clone)]
struct Gate {
    actor: u32,
    point: String,
    arg0: Option<u64>,
    until_event: String,
    until_actor: Option<u32>,
    /// number of occurrences of the awaited event (after parking) that opens the gate
    count: usize,
    used: bool,
}

struct Inner {
    log: Vec<Value>,
    rng: Rng,
    p_yield: u64,
    max_yields: u64,
    p_sleep: u64,
    p_long_sleep: u64,
    /// multi-thread runtime only: probability (percent) of a short thread sleep at a synchronous
    /// event that lies between two steps the code does not do atomically (preemption there is
    /// something a multi-thread runtime can always do)
    p_sync_delay: u64,
    gates: Vec<Gate>,
    infeasible: u64,
    points_hit: HashMap<String, u64>,
    record_points: bool,
}

pub struct SchedHandler {
    inner: Mutex<Inner>,
}

impl SchedHandler {
    fn log_event(&self, name: &str, args: &[u64]) {
        let mut g = self.inner.lock().unwrap();
        g.log.push(json!([seq(), actor(), name, args]));
    }
    fn has_event(&self, name: &str, by: Option<u32>, after: usize, count: usize) -> bool {
        let g = self.inner.lock().unwrap();
        g.log[after.min(g.log.len())..]
            .iter()
            .filter(|e| e[2].as_str() == Some(name) && by.is_none_or(|a| e[1].as_u64() == Some(a as u64)))
            .count()
            >= count.max(1)
    }
}

impl Handler for SchedHandler {
    fn event(&self, name: &'static str, args: &[u64]) {
        if name == "binder.table_resolved" {
            // not a version-manager event: no trace entry, only a possible preemption
            let us = {
                let mut g = self.inner.lock().unwrap();
                if g.p_sync_delay > 0 && g.rng.below(100) < g.p_sync_delay { 200 + g.rng.below(1000) } else { 0 }
            };
            if us > 0 {
                std::thread::sleep(Duration::from_micros(us));
            }
            return;
        }
        self.log_event(name, args);
    }

    fn point(&self, name: &'static str, args: &[u64]) -> Option<BoxFuture<'static, ()>> {
        let me = actor();
        let (yields, sleep_ms, gate) = {
            let mut g = self.inner.lock().unwrap();
            *g.points_hit.entry(name.to_string()).or_default() += 1;
            if g.record_points {
                let s = seq();
                g.log.push(json!([s, me, format!("@{name}"), args]));
            }
            let mut gate = None;
            for (i, gt) in g.gates.iter().enumerate() {
                if !gt.used
                    && gt.actor == me
                    && gt.point == name
                    && gt.arg0.is_none_or(|a| args.first() == Some(&a))
                {
                    gate = Some(i);
                    break;
                }
            }
            if let Some(i) = gate {
                g.gates[i].used = true;
            }
            let (p_yield, max_yields, p_sleep) = (g.p_yield, g.max_yields, g.p_sleep);
            let yields = if g.rng.below(100) < p_yield {
                1 + g.rng.below(max_yields.max(1))
            } else {
                0
            };
            let mut sleep_ms = if g.rng.below(100) < p_sleep { 1 + g.rng.below(5) } else { 0 };
            // occasionally park long enough for a whole compactor + vacuum pass to run
            if g.p_long_sleep > 0 && g.rng.below(1000) < g.p_long_sleep {
                sleep_ms = 600 + g.rng.below(500);
            }
            let start = g.log.len();
            (yields, sleep_ms, gate.map(|i| (g.gates[i].clone(), start)))
        };
        if yields == 0 && sleep_ms == 0 && gate.is_none() {
            return None;
        }
        let this: &'static SchedHandler = unsafe { &*(self as *const SchedHandler) };
        Some(
            async move {
                if let Some((gt, start)) = gate {
                    // park until the awaited event has been logged (virtual time bound)
                    let mut waited = 0;
                    while !this.has_event(&gt.until_event, gt.until_actor, start, gt.count) {
                        tokio::time::sleep(Duration::from_millis(1)).await;
                        waited += 1;
                        if waited > 3000 {
                            this.inner.lock().unwrap().infeasible += 1;
                            break;
                        }
                    }
                }
                for _ in 0..yields {
                    tokio::task::yield_now().await;
                }
                if sleep_ms > 0 {
                    tokio::time::sleep(Duration::from_millis(sleep_ms)).await;
                }
            }
            .boxed(),
        )
    }
}

fn storage_options(c: &Value, path: PathBuf) -> SecondaryStorageOptions {
    let mut opts = SecondaryStorageOptions::default_for_cli();
    opts.path = path;
    opts.target_block_size = c["block"].as_u64().unwrap_or(64) as usize;
    opts.target_rowset_size = c["rowset"].as_u64().unwrap_or(300) as usize;
    opts.cache_size = 4096;
    opts.checksum_type = if c["crc"].as_bool().unwrap_or(true) {
        ChecksumType::Crc32
    } else {
        ChecksumType::None
    };
    opts
}

async fn run_sql(db: &Database, sql: &str) -> Value {
    let inv = seq();
    let res = std::panic::AssertUnwindSafe(db.run(sql)).catch_unwind().await;
    let ret = seq();
    match res {
        Ok(Ok(chunks)) => {
            let out: Vec<Value> = chunks.iter().map(enc::chunk).collect();
            json!({"sql": sql, "inv": inv, "ret": ret, "ok": true, "stmts": out})
        }
        Ok(Err(e)) => {
            let mut msg = e.to_string();
            msg.truncate(300);
            json!({"sql": sql, "inv": inv, "ret": ret, "ok": false, "err": msg})
        }
        Err(_) => json!({"sql": sql, "inv": inv, "ret": ret, "ok": false, "err": "panic", "panic": true}),
    }
}

async fn reader_actor(db: Arc<Database>, spec: Value) -> Value {
    // wait until the requested number of commits has been seen (so readers start mid-history)
    let delay = spec["delay_ms"].as_u64().unwrap_or(0);
    if delay > 0 {
        tokio::time::sleep(Duration::from_millis(delay)).await;
    }
    let table = spec["table"].as_str().unwrap_or("t0");
    let batch = spec["batch"].as_u64().map(|b| b as usize);
    let pause = spec["pause_yields"].as_u64().unwrap_or(1);
    let pause_ms = spec["pause_ms"].as_u64().unwrap_or(0);
    let sorted = spec["sorted"].as_bool().unwrap_or(false);
    let (catalog, storage) = db.verif_parts();
    let Some(tid) = catalog.get_table_id_by_name("postgres", table) else {
        return json!({"kind": "reader", "table": table, "skipped": "no such table"});
    };
    let StorageImpl::SecondaryStorage(storage) = storage else {
        return json!({"kind": "reader", "skipped": "not disk"});
    };
    let ncols = catalog
        .get_table(&tid)
        .map(|t| t.all_columns().len())
        .unwrap_or(0);
    let inv = seq();
    let result = std::panic::AssertUnwindSafe(async {
        let t = storage.get_table(tid).map_err(|e| format!("get_table: {e}"))?;
        let txn = t.read().await.map_err(|e| format!("read: {e}"))?;
        let started = seq();
        let cols: Vec<StorageColumnRef> = (0..ncols as u32).map(StorageColumnRef::Idx).collect();
        let mut it = txn
            .scan(&cols, ScanOptions::default().with_sorted(sorted))
            .await
            .map_err(|e| format!("scan: {e}"))?;
        let mut rows: Vec<Value> = vec![];
        let mut batches = 0;
        loop {
            match it.next_batch(batch).await {
                Ok(Some(chunk)) => {
                    batches += 1;
                    for i in 0..chunk.cardinality() {
                        rows.push(Value::Array(
                            chunk.arrays().iter().map(|a| enc::cell(&a.get(i))).collect(),
                        ));
                    }
                }
                Ok(None) => break,
                Err(e) => return Err(format!("next_batch #{batches}: {e}")),
            }
            for _ in 0..pause {
                tokio::task::yield_now().await;
            }
            if pause_ms > 0 {
                tokio::time::sleep(Duration::from_millis(pause_ms)).await;
            }
        }
        drop(it);
        let _ = txn.abort().await;
        Ok::<_, String>((started, rows, batches))
    })
    .catch_unwind()
    .await;
    let ret = seq();
    match result {
        Ok(Ok((started, rows, batches))) => {
            json!({"kind": "reader", "table": table, "inv": inv, "started": started, "ret": ret, "ok": true, "rows": rows, "batches": batches})
        }
        Ok(Err(e)) => json!({"kind": "reader", "table": table, "inv": inv, "ret": ret, "ok": false, "err": e}),
        Err(_) => json!({"kind": "reader", "table": table, "inv": inv, "ret": ret, "ok": false, "err": "panic", "panic": true}),
    }
}

async fn sql_actor(db: Arc<Database>, spec: Value) -> Value {
    let mut hist = vec![];
    let delay = spec["delay_ms"].as_u64().unwrap_or(0);
    if delay > 0 {
        tokio::time::sleep(Duration::from_millis(delay)).await;
    }
    for s in spec["stmts"].as_array().cloned().unwrap_or_default() {
        let sql = s.as_str().unwrap_or("");
        if let Some(ms) = sql.strip_prefix("<sleep ") {
            let ms: u64 = ms.trim_end_matches('>').parse().unwrap_or(1);
            tokio::time::sleep(Duration::from_millis(ms)).await;
            continue;
        }
        let timeout = spec["stmt_timeout_ms"].as_u64().unwrap_or(600_000);
        match tokio::time::timeout(Duration::from_millis(timeout), run_sql(&db, sql)).await {
            Ok(v) => {
                hist.push(v);
                // client-boundary marker for directed schedules ("until this session acknowledged n statements")
                risinglight::verif::event("stmt_done", &[hist.len() as u64]);
            }
            Err(_) => {
                hist.push(json!({"sql": sql, "ok": false, "err": "virtual-time timeout: statement never completed", "stuck": true}));
                break;
            }
        }
    }
    json!({"kind": "sql", "history": hist})
}

async fn clock_actor(spec: Value) -> Value {
    let ticks = spec["ticks"].as_u64().unwrap_or(1);
    let delay = spec["delay_ms"].as_u64().unwrap_or(0);
    if delay > 0 {
        tokio::time::sleep(Duration::from_millis(delay)).await;
    }
    for _ in 0..ticks {
        tokio::time::sleep(Duration::from_millis(spec["tick_ms"].as_u64().unwrap_or(1001))).await;
    }
    json!({"kind": "clock", "ticks": ticks})
}

pub fn main(args: &[String]) {
    crate::sqlrun::install_panic_monitor();
    let scenario: Value = if let Some(p) = args.first() {
        serde_json::from_str(&std::fs::read_to_string(p).expect("scenario file")).expect("scenario json")
    } else {
        let mut s = String::new();
        std::io::Read::read_to_string(&mut std::io::stdin(), &mut s).unwrap();
        serde_json::from_str(&s).expect("scenario json")
    };
    let mt = scenario["mt"].as_u64().unwrap_or(0) as usize;
    let rt = if mt > 0 {
        tokio::runtime::Builder::new_multi_thread()
            .worker_threads(mt)
            .enable_all()
            .build()
            .unwrap()
    } else {
        tokio::runtime::Builder::new_current_thread()
            .enable_all()
            .start_paused(true)
            .build()
            .unwrap()
    };
    let out = rt.block_on(run(scenario, mt > 0));
    println!("{out}");
    std::process::exit(0);
}

async fn run(sc: Value, multi_thread: bool) -> Value {
    let seed = sc["seed"].as_u64().unwrap_or(1);
    let mut names: HashMap<String, u32> = HashMap::new();
    let actors = sc["actors"].as_array().cloned().unwrap_or_default();
    for (i, a) in actors.iter().enumerate() {
        if let Some(n) = a["name"].as_str() {
            names.insert(n.to_string(), i as u32);
        }
    }
    // background tasks of the engine are not inside an actor scope: they show as actor u32::MAX
    names.insert("bg".into(), u32::MAX);
    let gates = sc["gates"]
        .as_array()
        .cloned()
        .unwrap_or_default()
        .iter()
        .map(|g| Gate {
            actor: *names.get(g["actor"].as_str().unwrap_or("")).unwrap_or(&u32::MAX),
            point: g["point"].as_str().unwrap_or("").to_string(),
            arg0: g["arg0"].as_u64(),
            until_event: g["until"].as_str().unwrap_or("").to_string(),
            until_actor: g["until_actor"].as_str().and_then(|n| names.get(n).copied()),
            count: g["count"].as_u64().unwrap_or(1) as usize,
            used: sc["gates_after_setup"].as_bool().unwrap_or(false),
        })
        .collect();
    let handler: &'static SchedHandler = Box::leak(Box::new(SchedHandler {
        inner: Mutex::new(Inner {
            log: vec![],
            rng: Rng(seed ^ 0x5CED),
            p_yield: sc["p_yield"].as_u64().unwrap_or(30),
            max_yields: sc["max_yields"].as_u64().unwrap_or(3),
            p_sleep: if multi_thread { 0 } else { sc["p_sleep"].as_u64().unwrap_or(10) },
            p_long_sleep: if multi_thread { 0 } else { sc["p_long_sleep"].as_u64().unwrap_or(0) },
            p_sync_delay: if multi_thread { sc["p_sync_delay"].as_u64().unwrap_or(0) } else { 0 },
            gates,
            infeasible: 0,
            points_hit: HashMap::new(),
            record_points: sc["record_points"].as_bool().unwrap_or(false),
        }),
    }));
    struct Fwd(&'static SchedHandler);
    impl Handler for Fwd {
        fn event(&self, n: &'static str, a: &[u64]) {
            self.0.event(n, a)
        }
        fn point(&self, n: &'static str, a: &[u64]) -> Option<BoxFuture<'static, ()>> {
            self.0.point(n, a)
        }
    }
    risinglight::verif::install(Some(Arc::new(Fwd(handler))));

    let path = PathBuf::from(sc["path"].as_str().expect("path"));
    let open = std::panic::AssertUnwindSafe(Database::new_on_disk(storage_options(&sc, path.clone())))
        .catch_unwind()
        .await;
    let Ok(db) = open else {
        return json!({"error": "open panicked", "panics": crate::sqlrun::drain_panics()});
    };
    let db = Arc::new(db);
    let mut setup_hist = vec![];
    for s in sc["setup"].as_array().cloned().unwrap_or_default() {
        setup_hist.push(run_sql(&db, s.as_str().unwrap_or("")).await);
    }
    if sc["settle_ms"].as_u64().unwrap_or(0) > 0 {
        tokio::time::sleep(Duration::from_millis(sc["settle_ms"].as_u64().unwrap())).await;
    }
    if sc["gates_after_setup"].as_bool().unwrap_or(false) {
        // directed gates on points that the setup statements pass too: arm them only now
        for g in handler.inner.lock().unwrap().gates.iter_mut() {
            g.used = false;
        }
    }
    let log_start = handler.inner.lock().unwrap().log.len();
    // run the actors
    let mut handles = vec![];
    for (i, a) in actors.iter().enumerate() {
        let db = db.clone();
        let a = a.clone();
        let kind = a["kind"].as_str().unwrap_or("sql").to_string();
        let fut = async move {
            match kind.as_str() {
                "reader" => reader_actor(db, a).await,
                "clock" => clock_actor(a).await,
                _ => sql_actor(db, a).await,
            }
        };
        handles.push(tokio::spawn(ACTOR.scope(i as u32, fut)));
    }
    let mut results = vec![];
    let watchdog = sc["virtual_deadline_ms"].as_u64().unwrap_or(3_600_000);
    let mut deadlock = false;
    for h in handles {
        match tokio::time::timeout(Duration::from_millis(watchdog), h).await {
            Ok(Ok(v)) => results.push(v),
            Ok(Err(e)) => results.push(json!({"error": format!("actor task failed: {e}"), "panic": e.is_panic()})),
            Err(_) => {
                deadlock = true;
                results.push(json!({"error": "virtual deadline passed: actor never finished", "stuck": true}));
            }
        }
    }
    // let compaction and vacuum settle
    let settle = sc["final_ticks"].as_u64().unwrap_or(2);
    for _ in 0..settle {
        tokio::time::sleep(Duration::from_millis(if multi_thread { 1100 } else { 1001 })).await;
    }
    let mut final_hist = vec![];
    for s in sc["final"].as_array().cloned().unwrap_or_default() {
        final_hist.push(run_sql(&db, s.as_str().unwrap_or("")).await);
    }
    let mut reopen_hist = vec![];
    let mut reopen_ok = Value::Null;
    if sc["reopen"].as_bool().unwrap_or(false) && !deadlock {
        let sd = std::panic::AssertUnwindSafe(db.shutdown()).catch_unwind().await;
        let sd_ok = matches!(sd, Ok(Ok(())));
        drop(db);
        for _ in 0..30 {
            tokio::task::yield_now().await;
        }
        handler.log_event("@reopen", &[]);
        if !sd_ok {
            reopen_ok = json!({"ok": false, "err": "shutdown failed or panicked", "panics": crate::sqlrun::drain_panics()});
        } else {
            match std::panic::AssertUnwindSafe(Database::new_on_disk(storage_options(&sc, path)))
                .catch_unwind()
                .await
            {
                Ok(db2) => {
                    reopen_ok = json!({"ok": true});
                    for s in sc["final"].as_array().cloned().unwrap_or_default() {
                        reopen_hist.push(run_sql(&db2, s.as_str().unwrap_or("")).await);
                    }
                }
                Err(_) => {
                    reopen_ok = json!({"ok": false, "err": "open panicked", "panics": crate::sqlrun::drain_panics()});
                }
            }
        }
    }
    let g = handler.inner.lock().unwrap();
    json!({
        "setup": setup_hist,
        "actors": results,
        "final": final_hist,
        "reopen": reopen_ok,
        "final_after_reopen": reopen_hist,
        "events": g.log[log_start..].to_vec(),
        "setup_events": g.log[..log_start].to_vec(),
        "infeasible_gates": g.infeasible,
        "points_hit": g.points_hit,
        "panics": crate::sqlrun::drain_panics(),
        "deadlock": deadlock,
    })
}
