//! JSON-lines SQL session runner around the real `Database`.
use std::collections::HashMap;
use std::io::{BufRead, Write};
use std::path::PathBuf;
use std::sync::{Arc, Mutex};
use std::time::Duration;

use futures::FutureExt;
use risinglight::Database;
use risinglight::storage::SecondaryStorageOptions;
use risinglight_proto::rowset::block_checksum::ChecksumType;
use serde_json::{Value, json};

use crate::enc;
use crate::handler::RunnerHandler;

pub static PANICS: Mutex<Vec<String>> = Mutex::new(Vec::new());

pub fn install_panic_monitor() {
    std::panic::set_hook(Box::new(|info| {
        let msg = if let Some(s) = info.payload().downcast_ref::<&str>() {
            s.to_string()
        } else if let Some(s) = info.payload().downcast_ref::<String>() {
            s.clone()
        } else {
            "<non-string panic>".to_string()
        };
        let loc = info
            .location()
            .map(|l| format!("{}:{}", l.file(), l.line()))
            .unwrap_or_default();
        let task = tokio::task::try_id()
            .map(|i| i.to_string())
            .unwrap_or_default();
        let mut short = msg;
        if short.len() > 400 {
            let mut cut = 400;
            while !short.is_char_boundary(cut) {
                cut -= 1;
            }
            short.truncate(cut);
        }
        if std::env::var("RLV_PANIC_STDERR").is_ok() {
            eprintln!("panic at {loc}: {short}");
        }
        PANICS
            .lock()
            .unwrap()
            .push(format!("{loc}|task={task}|{short}"));
    }));
}

pub fn drain_panics() -> Vec<String> {
    std::mem::take(&mut *PANICS.lock().unwrap())
}

#[derive(Clone)]
struct DiskOpts {
    path: PathBuf,
    block: usize,
    rowset: usize,
    crc: bool,
    first_key: bool,
    cache: usize,
}

fn storage_options(o: &DiskOpts) -> SecondaryStorageOptions {
    let mut opts = SecondaryStorageOptions::default_for_cli();
    opts.path = o.path.clone();
    opts.target_block_size = o.block;
    opts.target_rowset_size = o.rowset;
    opts.cache_size = o.cache;
    opts.checksum_type = if o.crc {
        ChecksumType::Crc32
    } else {
        ChecksumType::None
    };
    opts.record_first_key = o.first_key;
    opts
}

struct Session {
    db: Arc<Database>,
    disk: Option<DiskOpts>,
}

fn err_kind(e: &risinglight::Error) -> &'static str {
    match e {
        risinglight::Error::Parse(_) => "parse",
        risinglight::Error::Bind(_) => "bind",
        risinglight::Error::Execute(_) => "execute",
        risinglight::Error::Storage(_) => "storage",
        risinglight::Error::Internal(_) => "internal",
    }
}

async fn open_disk(o: &DiskOpts) -> Result<Database, String> {
    let opts = storage_options(o);
    match std::panic::AssertUnwindSafe(Database::new_on_disk(opts))
        .catch_unwind()
        .await
    {
        Ok(db) => Ok(db),
        Err(_) => Err("panic during open".to_string()),
    }
}

pub fn main(args: &[String]) {
    let mut mt = 0usize;
    let mut i = 0;
    while i < args.len() {
        if args[i] == "--mt" {
            mt = args[i + 1].parse().unwrap();
            i += 1;
        }
        i += 1;
    }
    install_panic_monitor();
    let rt = if mt > 0 {
        tokio::runtime::Builder::new_multi_thread()
            .worker_threads(mt)
            .enable_all()
            .build()
            .unwrap()
    } else {
        tokio::runtime::Builder::new_current_thread()
            .enable_all()
            .start_paused(true)
            .build()
            .unwrap()
    };
    rt.block_on(run(mt > 0));
    // do not wait for background tasks
    std::process::exit(0);
}

async fn run_sql(db: &Database, sql: &str) -> Value {
    let t0 = std::time::Instant::now();
    let res = std::panic::AssertUnwindSafe(db.run(sql)).catch_unwind().await;
    let wall = t0.elapsed().as_micros() as u64;
    match res {
        Ok(Ok(chunks)) => {
            let out: Vec<Value> = chunks.iter().map(enc::chunk).collect();
            json!({"ok": true, "stmts": out, "wall_us": wall})
        }
        Ok(Err(e)) => {
            let mut msg = e.to_string();
            if msg.len() > 600 {
                let mut cut = 600;
                while !msg.is_char_boundary(cut) {
                    cut -= 1;
                }
                msg.truncate(cut);
            }
            json!({"ok": false, "kind": err_kind(&e), "err": msg, "wall_us": wall})
        }
        Err(_) => json!({"ok": false, "kind": "panic", "err": "panic in Database::run", "wall_us": wall}),
    }
}

async fn run(multi_thread: bool) {
    let handler = Arc::new(RunnerHandler::default());
    risinglight::verif::install(Some(handler.clone()));
    let mut sessions: HashMap<String, Session> = HashMap::new();
    let stdin = std::io::stdin();
    let stdout = std::io::stdout();
    let mut line = String::new();
    loop {
        line.clear();
        let n = stdin.lock().read_line(&mut line).unwrap_or(0);
        if n == 0 {
            break;
        }
        let Ok(cmd): Result<Value, _> = serde_json::from_str(line.trim()) else {
            continue;
        };
        let op = cmd["op"].as_str().unwrap_or("");
        let name = cmd["db"].as_str().unwrap_or("main").to_string();
        let mut resp = match op {
            "open" => {
                let engine = cmd["engine"].as_str().unwrap_or("mem");
                if engine == "mem" {
                    sessions.insert(
                        name.clone(),
                        Session {
                            db: Arc::new(Database::new_in_memory()),
                            disk: None,
                        },
                    );
                    json!({"ok": true})
                } else {
                    let o = DiskOpts {
                        path: PathBuf::from(cmd["path"].as_str().unwrap()),
                        block: cmd["block"].as_u64().unwrap_or(16384) as usize,
                        rowset: cmd["rowset"].as_u64().unwrap_or(256 << 20) as usize,
                        crc: cmd["crc"].as_bool().unwrap_or(true),
                        first_key: cmd["first_key"].as_bool().unwrap_or(true),
                        cache: cmd["cache"].as_u64().unwrap_or(4096) as usize,
                    };
                    match open_disk(&o).await {
                        Ok(db) => {
                            sessions.insert(
                                name.clone(),
                                Session {
                                    db: Arc::new(db),
                                    disk: Some(o),
                                },
                            );
                            json!({"ok": true})
                        }
                        Err(e) => json!({"ok": false, "kind": "panic", "err": e}),
                    }
                }
            }
            "sql" => match sessions.get(&name) {
                Some(s) => {
                    let db = s.db.clone();
                    run_sql(&db, cmd["sql"].as_str().unwrap_or("")).await
                }
                None => json!({"ok": false, "kind": "harness", "err": "no such db"}),
            },
            "rewrite" => match sessions.get(&name) {
                Some(s) => {
                    let db = s.db.clone();
                    crate::planops::rewrite(&db, &cmd).await
                }
                None => json!({"ok": false, "kind": "harness", "err": "no such db"}),
            },
            "plancheck" => match sessions.get(&name) {
                Some(s) => {
                    let db = s.db.clone();
                    crate::planops::plancheck(&db, &cmd).await
                }
                None => json!({"ok": false, "kind": "harness", "err": "no such db"}),
            },
            "opimpl" => match sessions.get(&name) {
                Some(s) => {
                    let db = s.db.clone();
                    crate::opimpl::opimpl(&db, &cmd).await
                }
                None => json!({"ok": false, "kind": "harness", "err": "no such db"}),
            },
            "rule_names" => match sessions.get(&name) {
                Some(s) => crate::planops::rule_names(&s.db).await,
                None => json!({"ok": false, "kind": "harness", "err": "no such db"}),
            },
            "tick" => {
                // let background tasks (compactor, vacuum) run: one virtual second per pass
                let secs = cmd["secs"].as_u64().unwrap_or(1);
                if multi_thread {
                    tokio::time::sleep(Duration::from_millis(1100 * secs)).await;
                } else {
                    for _ in 0..secs {
                        tokio::time::sleep(Duration::from_millis(1001)).await;
                    }
                }
                json!({"ok": true})
            }
            "yield" => {
                for _ in 0..cmd["n"].as_u64().unwrap_or(10) {
                    tokio::task::yield_now().await;
                }
                json!({"ok": true})
            }
            "shutdown" => match sessions.get(&name) {
                Some(s) => {
                    let db = s.db.clone();
                    match std::panic::AssertUnwindSafe(db.shutdown())
                        .catch_unwind()
                        .await
                    {
                        Ok(Ok(())) => json!({"ok": true}),
                        Ok(Err(e)) => json!({"ok": false, "kind": err_kind(&e), "err": e.to_string()}),
                        Err(_) => json!({"ok": false, "kind": "panic", "err": "panic in shutdown"}),
                    }
                }
                None => json!({"ok": false, "kind": "harness", "err": "no such db"}),
            },
            "drop" => {
                sessions.remove(&name);
                // let aborted tasks unwind
                for _ in 0..20 {
                    tokio::task::yield_now().await;
                }
                json!({"ok": true})
            }
            "reopen" => {
                // clean shutdown, drop, open the same directory again
                match sessions.remove(&name) {
                    Some(s) => {
                        let Some(o) = s.disk.clone() else {
                            sessions.insert(name.clone(), s);
                            println!("{}", json!({"ok": false, "kind": "harness", "err": "not disk"}));
                            continue;
                        };
                        let sd = match std::panic::AssertUnwindSafe(s.db.shutdown())
                            .catch_unwind()
                            .await
                        {
                            Ok(Ok(())) => None,
                            Ok(Err(e)) => Some(format!("shutdown error: {e}")),
                            Err(_) => Some("panic in shutdown".to_string()),
                        };
                        drop(s);
                        for _ in 0..20 {
                            tokio::task::yield_now().await;
                        }
                        if let Some(e) = sd {
                            json!({"ok": false, "kind": "shutdown", "err": e})
                        } else {
                            match open_disk(&o).await {
                                Ok(db) => {
                                    sessions.insert(
                                        name.clone(),
                                        Session {
                                            db: Arc::new(db),
                                            disk: Some(o),
                                        },
                                    );
                                    json!({"ok": true})
                                }
                                Err(e) => json!({"ok": false, "kind": "panic", "err": e}),
                            }
                        }
                    }
                    None => json!({"ok": false, "kind": "harness", "err": "no such db"}),
                }
            }
            "events" => {
                let mut st = handler.st.lock().unwrap();
                st.record_events = cmd["record"].as_bool().unwrap_or(true);
                let ev: Vec<Value> = st
                    .events
                    .drain(..)
                    .map(|(n, a)| json!([n, a]))
                    .collect();
                json!({"ok": true, "events": ev})
            }
            "fault_arm" => {
                let mut st = handler.st.lock().unwrap();
                let kind = if cmd["kind"].as_str() == Some("panic") {
                    risinglight::verif::Fault::Panic
                } else {
                    risinglight::verif::Fault::Error
                };
                st.armed = Some((
                    cmd["name"].as_str().unwrap_or("").to_string(),
                    cmd["idx"].as_u64().unwrap_or(0) as usize,
                    cmd["is_end"].as_bool().unwrap_or(false),
                    kind,
                ));
                st.fault_fired = false;
                json!({"ok": true})
            }
            "fault_disarm" => {
                let mut st = handler.st.lock().unwrap();
                st.armed = None;
                json!({"ok": true})
            }
            "deny_rules" => {
                let mut st = handler.st.lock().unwrap();
                st.deny = cmd["rules"]
                    .as_array()
                    .map(|a| {
                        a.iter()
                            .filter_map(|x| x.as_str().map(|s| s.to_string()))
                            .collect()
                    })
                    .unwrap_or_default();
                json!({"ok": true})
            }
            "crash_arm" => {
                let mut st = handler.st.lock().unwrap();
                st.crash = Some((
                    PathBuf::from(cmd["src"].as_str().unwrap()),
                    PathBuf::from(cmd["dst"].as_str().unwrap()),
                ));
                json!({"ok": true})
            }
            "crash_disarm" => {
                let mut st = handler.st.lock().unwrap();
                st.crash = None;
                json!({"ok": true})
            }
            "crash_steps" => {
                let st = handler.st.lock().unwrap();
                json!({"ok": true, "steps": st.crash_steps_seen})
            }
            "quit" => break,
            _ => json!({"ok": false, "kind": "harness", "err": format!("unknown op {op}")}),
        };
        // attach what the monitors saw while this command ran
        {
            let mut st = handler.st.lock().unwrap();
            let obj = resp.as_object_mut().unwrap();
            let panics = drain_panics();
            if !panics.is_empty() {
                obj.insert("panics".into(), json!(panics));
            }
            if !st.rules.is_empty() {
                obj.insert("rules".into(), json!(std::mem::take(&mut st.rules)));
            }
            if !st.ops_seen.is_empty() {
                obj.insert("ops".into(), json!(std::mem::take(&mut st.ops_seen)));
            }
            if st.fault_fired {
                obj.insert("fault_fired".into(), json!(true));
                st.fault_fired = false;
            }
            if !st.crash_points.is_empty() {
                obj.insert(
                    "crash_points".into(),
                    Value::Array(std::mem::take(&mut st.crash_points)),
                );
            }
        }
        let mut out = stdout.lock();
        let _ = writeln!(out, "{}", resp);
        let _ = out.flush();
    }
}

/// `rlv serve <port> <workers> mem | disk <path> <block> <rowset>`: the real PostgreSQL-protocol
/// server (`risinglight::server::run_server`) on 127.0.0.1:<port> over a fresh or existing
/// database, on a multi-thread runtime as the CLI starts it. Panics (a panicking connection task is
/// otherwise silent: the client just sees the socket close) are appended to `<path>.panics` /
/// stderr lines `PANIC <site>|...` so the supervisor can read them.
pub fn serve_main(args: &[String]) {
    let port: u16 = args[0].parse().unwrap();
    let workers: usize = args[1].parse().unwrap();
    let engine = args[2].clone();
    install_panic_monitor();
    let rt = tokio::runtime::Builder::new_multi_thread()
        .worker_threads(workers.max(1))
        .enable_all()
        .build()
        .unwrap();
    rt.block_on(async move {
        let db = if engine == "mem" {
            Database::new_in_memory()
        } else {
            let o = DiskOpts {
                path: PathBuf::from(&args[3]),
                block: args.get(4).and_then(|s| s.parse().ok()).unwrap_or(16384),
                rowset: args.get(5).and_then(|s| s.parse().ok()).unwrap_or(256 << 20),
                crc: true,
                first_key: true,
                cache: 4096,
            };
            match open_disk(&o).await {
                Ok(db) => db,
                Err(e) => {
                    println!("OPEN-FAILED {e}");
                    std::process::exit(3);
                }
            }
        };
        // report panics as they happen (one line each) on stdout
        tokio::spawn(async {
            let mut seen = 0usize;
            loop {
                tokio::time::sleep(std::time::Duration::from_millis(20)).await;
                let p = PANICS.lock().unwrap();
                while seen < p.len() {
                    println!("PANIC {}", p[seen].replace('\n', " "));
                    seen += 1;
                }
            }
        });
        println!("LISTENING {port}");
        risinglight::server::run_server(Some("127.0.0.1".into()), Some(port), db).await;
    });
}
