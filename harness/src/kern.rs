//! C14 kernel driver: vectorised array operations vs an independent scalar interpreter.
//!
//! Operand arrays are built with `ArrayFromDataExt::from_data`, so NULL slots carry arbitrary
//! raw bits (including zeros, which matter for division). The scalar reference works on
//! `Option<i128 | f64 | Decimal | bool | String>` and is written from the SQL rules, not from
//! `ops.rs`.
use std::collections::BTreeMap;

use bitvec::prelude::BitVec;
use futures::FutureExt;
use risinglight::array::{
    ArrayFromDataExt, ArrayImpl, BoolArray, DecimalArray, F64Array, I16Array, I32Array, I64Array,
    StringArray,
};
use risinglight::parser::BinaryOperator;
use risinglight::types::{DataType, DataValue, F64};
use rust_decimal::Decimal;
use serde_json::{Value, json};

use crate::lab::Rng;

#[derive(Clone, Debug, PartialEq)]
enum Sv {
    I(i128, u8), // value, width in bits (16/32/64)
    F(f64),
    D(Decimal),
    B(bool),
    S(String),
}

const TYPES: &[&str] = &["int16", "int32", "int64", "float64", "decimal", "bool", "string"];

fn pool_value(rng: &mut Rng, ty: &str, extreme: bool) -> Sv {
    match ty {
        "int16" => {
            let p: &[i128] = if extreme { &[0, 1, -1, 32767, -32768, 2, 7, -7, 100, 181] } else { &[0, 1, -1, 2, 7, -7, 100, 3] };
            Sv::I(*rng.pick(p), 16)
        }
        "int32" => {
            let p: &[i128] = if extreme {
                &[0, 1, -1, 2147483647, -2147483648, 2, 7, -7, 65536, 46341]
            } else {
                &[0, 1, -1, 2, 7, -7, 65536, 1000]
            };
            Sv::I(*rng.pick(p), 32)
        }
        "int64" => {
            let p: &[i128] = if extreme {
                &[0, 1, -1, i64::MAX as i128, i64::MIN as i128, 2, 7, -7, 1 << 40, 3037000500]
            } else {
                &[0, 1, -1, 2, 7, -7, 1 << 40, 12345]
            };
            Sv::I(*rng.pick(p), 64)
        }
        "float64" if extreme && rng.chance(1, 3) => Sv::F(*rng.pick(&[
            // the ends of the integer types as doubles, and their neighbours (2^63 is `i64::MAX as f64`: a bound computed in
            // floating point accepts it)
            32767.0,
            32767.9,
            32768.0,
            -32768.0,
            -32768.9,
            -32769.0,
            2147483647.0,
            2147483647.5,
            2147483648.0,
            -2147483648.0,
            -2147483648.5,
            -2147483649.0,
            9223372036854774784.0,
            9223372036854775808.0,
            -9223372036854775808.0,
            -9223372036854777856.0,
            1e19,
        ])),
        "float64" => Sv::F(*rng.pick(&[0.0, -0.0, 1.5, -2.25, 1e300, -1e300, 0.1, 3.0, 1e-300])),
        "decimal" => Sv::D(*rng.pick(&[
            Decimal::new(0, 0),
            Decimal::new(1, 0),
            Decimal::new(-1, 0),
            Decimal::new(15, 1),
            Decimal::new(-225, 2),
            Decimal::new(100001, 3),
            Decimal::new(7, 0),
            Decimal::new(1, 3),
        ])),
        "bool" => Sv::B(rng.chance(1, 2)),
        "string" => Sv::S(rng.pick(&["", "a", "ab", "abc", "B", "a%", "a_c", "é"]).to_string()),
        _ => unreachable!(),
    }
}

fn build(ty: &str, vals: &[Option<Sv>], raw_under_null: &[Sv]) -> ArrayImpl {
    let valid: BitVec = vals.iter().map(|v| v.is_some()).collect();
    let raw = |i: usize| -> &Sv { vals[i].as_ref().unwrap_or(&raw_under_null[i]) };
    match ty {
        "int16" => ArrayImpl::new_int16(I16Array::from_data(
            (0..vals.len()).map(|i| if let Sv::I(v, _) = raw(i) { *v as i16 } else { 0 }),
            valid,
        )),
        "int32" => ArrayImpl::new_int32(I32Array::from_data(
            (0..vals.len()).map(|i| if let Sv::I(v, _) = raw(i) { *v as i32 } else { 0 }),
            valid,
        )),
        "int64" => ArrayImpl::new_int64(I64Array::from_data(
            (0..vals.len()).map(|i| if let Sv::I(v, _) = raw(i) { *v as i64 } else { 0 }),
            valid,
        )),
        "float64" => ArrayImpl::new_float64(F64Array::from_data(
            (0..vals.len()).map(|i| if let Sv::F(v) = raw(i) { F64::from(*v) } else { F64::from(0.0) }),
            valid,
        )),
        "decimal" => ArrayImpl::new_decimal(DecimalArray::from_data(
            (0..vals.len()).map(|i| if let Sv::D(v) = raw(i) { *v } else { Decimal::ZERO }),
            valid,
        )),
        "bool" => ArrayImpl::new_bool(BoolArray::from_data(
            (0..vals.len()).map(|i| if let Sv::B(v) = raw(i) { *v } else { false }),
            valid,
        )),
        "string" => {
            // var-length arrays have no raw slot under NULL
            ArrayImpl::new_string(
                vals.iter()
                    .map(|v| v.as_ref().map(|s| if let Sv::S(s) = s { s.clone() } else { String::new() }))
                    .collect::<StringArray>(),
            )
        }
        _ => unreachable!(),
    }
}

fn gen_operand(rng: &mut Rng, ty: &str, n: usize, extreme: bool, null_pct: u64) -> (Vec<Option<Sv>>, Vec<Sv>) {
    let vals = (0..n)
        .map(|_| if rng.below(100) < null_pct { None } else { Some(pool_value(rng, ty, extreme)) })
        .collect();
    let raw = (0..n).map(|_| pool_value(rng, ty, true)).collect();
    (vals, raw)
}

#[derive(Debug, Clone, PartialEq)]
enum Exp {
    Null,
    Val(DataValue),
    /// the whole operation must fail (overflow / out of range)
    Error(&'static str),
}

fn int_dv(v: i128, w: u8) -> Option<DataValue> {
    match w {
        16 => i16::try_from(v).ok().map(DataValue::Int16),
        32 => i32::try_from(v).ok().map(DataValue::Int32),
        _ => i64::try_from(v).ok().map(DataValue::Int64),
    }
}

fn to_dec(v: &Sv) -> Option<Decimal> {
    match v {
        Sv::I(i, _) => i64::try_from(*i).ok().map(Decimal::from),
        Sv::D(d) => Some(*d),
        _ => None,
    }
}
fn to_f(v: &Sv) -> f64 {
    match v {
        Sv::I(i, _) => *i as f64,
        Sv::F(f) => *f,
        _ => f64::NAN,
    }
}

/// SQL scalar semantics of `a op b` for one row. `None` = combination not modelled.
fn scalar_binary(op: &str, a: &Option<Sv>, b: &Option<Sv>) -> Option<Exp> {
    use Sv::*;
    // logic first: NULLs take part
    if op == "and" || op == "or" {
        let x = match a {
            Some(B(v)) => Some(*v),
            None => None,
            _ => return None,
        };
        let y = match b {
            Some(B(v)) => Some(*v),
            None => None,
            _ => return None,
        };
        let r = if op == "and" {
            match (x, y) {
                (Some(false), _) | (_, Some(false)) => Some(false),
                (Some(true), Some(true)) => Some(true),
                _ => None,
            }
        } else {
            match (x, y) {
                (Some(true), _) | (_, Some(true)) => Some(true),
                (Some(false), Some(false)) => Some(false),
                _ => None,
            }
        };
        return Some(r.map(|v| Exp::Val(DataValue::Bool(v))).unwrap_or(Exp::Null));
    }
    let (Some(a), Some(b)) = (a, b) else {
        return Some(Exp::Null);
    };
    let cmp = |o: std::cmp::Ordering| -> bool {
        match op {
            "=" => o.is_eq(),
            "<>" => o.is_ne(),
            "<" => o.is_lt(),
            "<=" => o.is_le(),
            ">" => o.is_gt(),
            ">=" => o.is_ge(),
            _ => unreachable!(),
        }
    };
    let is_cmp = matches!(op, "=" | "<>" | "<" | "<=" | ">" | ">=");
    match (a, b) {
        (I(x, wx), I(y, wy)) => {
            let w = (*wx).max(*wy);
            if is_cmp {
                return Some(Exp::Val(DataValue::Bool(cmp(x.cmp(y)))));
            }
            let r = match op {
                "+" => x + y,
                "-" => x - y,
                "*" => x * y,
                "/" => {
                    if *y == 0 {
                        return Some(Exp::Null);
                    }
                    x / y // truncation toward zero, as SQL integer division
                }
                "%" => {
                    if *y == 0 {
                        return Some(Exp::Null);
                    }
                    x % y
                }
                _ => return None,
            };
            Some(match int_dv(r, w) {
                Some(v) => Exp::Val(v),
                None => Exp::Error("integer overflow"),
            })
        }
        (S(x), S(y)) => {
            if is_cmp {
                Some(Exp::Val(DataValue::Bool(cmp(x.as_bytes().cmp(y.as_bytes())))))
            } else if op == "||" {
                Some(Exp::Val(DataValue::String(format!("{x}{y}").into())))
            } else {
                None
            }
        }
        (B(x), B(y)) if is_cmp => Some(Exp::Val(DataValue::Bool(cmp(x.cmp(y))))),
        (F(_), I(..)) | (I(..), F(_)) | (F(_), F(_)) => {
            let (x, y) = (to_f(a), to_f(b));
            if is_cmp {
                return Some(Exp::Val(DataValue::Bool(cmp(x.partial_cmp(&y)?))));
            }
            let r = match op {
                "+" => x + y,
                "-" => x - y,
                "*" => x * y,
                "/" => {
                    if y == 0.0 {
                        return Some(Exp::Null);
                    }
                    x / y
                }
                "%" => {
                    if y == 0.0 {
                        return Some(Exp::Null);
                    }
                    x % y
                }
                _ => return None,
            };
            Some(Exp::Val(DataValue::Float64(F64::from(r))))
        }
        (D(_), I(..)) | (I(..), D(_)) | (D(_), D(_)) => {
            let (x, y) = (to_dec(a)?, to_dec(b)?);
            if is_cmp {
                return Some(Exp::Val(DataValue::Bool(cmp(x.cmp(&y)))));
            }
            let r = match op {
                "+" => x.checked_add(y),
                "-" => x.checked_sub(y),
                "*" => x.checked_mul(y),
                "/" => {
                    if y.is_zero() {
                        return Some(Exp::Null);
                    }
                    x.checked_div(y)
                }
                "%" => {
                    if y.is_zero() {
                        return Some(Exp::Null);
                    }
                    x.checked_rem(y)
                }
                _ => return None,
            };
            Some(match r {
                Some(v) => Exp::Val(DataValue::Decimal(v)),
                None => Exp::Error("decimal overflow"),
            })
        }
        _ => None,
    }
}

fn op_of(name: &str) -> BinaryOperator {
    match name {
        "+" => BinaryOperator::Plus,
        "-" => BinaryOperator::Minus,
        "*" => BinaryOperator::Multiply,
        "/" => BinaryOperator::Divide,
        "%" => BinaryOperator::Modulo,
        "=" => BinaryOperator::Eq,
        "<>" => BinaryOperator::NotEq,
        "<" => BinaryOperator::Lt,
        "<=" => BinaryOperator::LtEq,
        ">" => BinaryOperator::Gt,
        ">=" => BinaryOperator::GtEq,
        "and" => BinaryOperator::And,
        "or" => BinaryOperator::Or,
        "||" => BinaryOperator::StringConcat,
        _ => unreachable!(),
    }
}

fn dv_same(a: &DataValue, b: &DataValue) -> bool {
    match (a, b) {
        (DataValue::Float64(x), DataValue::Float64(y)) => {
            (x.0.is_nan() && y.0.is_nan()) || x.0.to_bits() == y.0.to_bits() || (x.0 == 0.0 && y.0 == 0.0)
        }
        (DataValue::Decimal(x), DataValue::Decimal(y)) => x == y,
        _ => a == b,
    }
}

struct Outcome {
    sig: Option<(String, String)>,
    rows: usize,
    modelled: bool,
}

fn show(v: &Option<Sv>) -> String {
    match v {
        None => "NULL".into(),
        Some(Sv::I(i, w)) => format!("{i}::int{w}"),
        Some(Sv::F(f)) => format!("{f:?}::double"),
        Some(Sv::D(d)) => format!("{d}::decimal"),
        Some(Sv::B(b)) => format!("{b}"),
        Some(Sv::S(s)) => format!("'{s}'"),
    }
}

fn gen_single(_ty: &str, v: &Option<Sv>, raw: &Sv) -> (Vec<Option<Sv>>, Vec<Sv>) {
    (vec![v.clone()], vec![raw.clone()])
}

fn run_binary_case(rng: &mut Rng, op: &str, ta: &str, tb: &str, extreme: bool) -> Outcome {
    let n = *rng.pick(&[0usize, 1, 2, 63, 64, 65, 130, 200, 17]);
    let null_pct = *rng.pick(&[0u64, 10, 30, 90]);
    let (va, ra) = gen_operand(rng, ta, n, extreme, null_pct);
    let (vb, rb) = gen_operand(rng, tb, n, extreme, null_pct);
    let mut exp = Vec::with_capacity(n);
    for i in 0..n {
        match scalar_binary(op, &va[i], &vb[i]) {
            Some(e) => exp.push(e),
            None => return Outcome { sig: None, rows: 0, modelled: false },
        }
    }
    let a = build(ta, &va, &ra);
    let b = build(tb, &vb, &rb);
    let res = std::panic::catch_unwind(std::panic::AssertUnwindSafe(|| a.binary_op(&op_of(op), &b)));
    let must_fail = exp.iter().find_map(|e| if let Exp::Error(w) = e { Some(*w) } else { None });
    let combo = format!("{op}({ta},{tb})");
    match res {
        Err(_) => {
            let p = crate::sqlrun::drain_panics();
            // a panic is never an acceptable way to report anything
            let first_bad = exp.iter().position(|e| matches!(e, Exp::Error(_)));
            let why = if must_fail.is_some() { "on-overflow" } else { "spurious" };
            Outcome {
                sig: Some((
                    format!("kernel-panics:{why}:{combo}"),
                    format!("{combo} on a batch of {n} panicked: {:?}; e.g. row {:?}", p.last(), first_bad.map(|i| (show(&va[i]), show(&vb[i])))),
                )),
                rows: n,
                modelled: true,
            }
        }
        Ok(Err(e)) => {
            if must_fail.is_some() {
                Outcome { sig: None, rows: n, modelled: true }
            } else if n == 0 || exp.is_empty() {
                Outcome { sig: None, rows: 0, modelled: false }
            } else if matches!(e, risinglight::types::ConvertError::NoBinaryOp(..)) {
                // the kernel rejects the type combination: not accepted, nothing to judge
                Outcome { sig: None, rows: 0, modelled: false }
            } else {
                // the combination is accepted and no row of the batch has to fail: the error is spurious (and fails every
                // other row of the batch with it)
                let culprit = (0..n).find(|&i| {
                    let (x, rx) = gen_single(ta, &va[i], &ra[i]);
                    let (y, ry) = gen_single(tb, &vb[i], &rb[i]);
                    let (a1, b1) = (build(ta, &x, &rx), build(tb, &y, &ry));
                    matches!(std::panic::catch_unwind(std::panic::AssertUnwindSafe(|| a1.binary_op(&op_of(op), &b1))), Ok(Err(_)))
                });
                Outcome {
                    sig: Some((
                        format!("spurious-error:{combo}"),
                        format!("{combo} on a batch of {n} failed with `{e}` although no row has to fail; e.g. row {:?}",
                                culprit.map(|i| (show(&va[i]), show(&vb[i])))),
                    )),
                    rows: n,
                    modelled: true,
                }
            }
        }
        Ok(Ok(out)) => {
            if let Some(w) = must_fail {
                let i = exp.iter().position(|e| matches!(e, Exp::Error(_))).unwrap();
                return Outcome {
                    sig: Some((
                        format!("overflow-not-reported:{combo}"),
                        format!("{} {op} {} must fail ({w}) but the kernel returned {:?}", show(&va[i]), show(&vb[i]), out.get(i)),
                    )),
                    rows: n,
                    modelled: true,
                };
            }
            if out.len() != n {
                return Outcome {
                    sig: Some((format!("length-differs:{combo}"), format!("batch of {n} gave {} results", out.len()))),
                    rows: n,
                    modelled: true,
                };
            }
            for i in 0..n {
                let got = out.get(i);
                let ok = match &exp[i] {
                    Exp::Null => got.is_null(),
                    Exp::Val(v) => dv_same(&got, v),
                    Exp::Error(_) => true,
                };
                if !ok {
                    let kind = if matches!(exp[i], Exp::Null) { "null-expected" } else if got.is_null() { "unexpected-null" } else { "value" };
                    return Outcome {
                        sig: Some((
                            format!("wrong-result:{kind}:{combo}"),
                            format!("row {i} of {n}: {} {op} {} = {:?}, expected {:?}", show(&va[i]), show(&vb[i]), got, exp[i]),
                        )),
                        rows: n,
                        modelled: true,
                    };
                }
            }
            // metamorphic: a row evaluated alone gives the same value
            if n > 1 {
                let i = rng.below(n as u64) as usize;
                let a1 = build(ta, &va[i..=i], &ra[i..=i]);
                let b1 = build(tb, &vb[i..=i], &rb[i..=i]);
                if let Ok(Ok(o1)) = std::panic::catch_unwind(std::panic::AssertUnwindSafe(|| a1.binary_op(&op_of(op), &b1)))
                    && (o1.len() != 1 || !(dv_same(&o1.get(0), &out.get(i)) || (o1.get(0).is_null() && out.get(i).is_null())))
                {
                    return Outcome {
                        sig: Some((format!("batch-dependent:{combo}"), format!("row {i}: alone {:?}, in batch {:?}", o1.get(0), out.get(i)))),
                        rows: n,
                        modelled: true,
                    };
                }
            }
            Outcome { sig: None, rows: n, modelled: true }
        }
    }
}

fn run_unary_case(rng: &mut Rng, what: &str, ty: &str) -> Outcome {
    let n = *rng.pick(&[0usize, 1, 63, 64, 65, 200]);
    let np = *rng.pick(&[0u64, 20, 80]);
    let (va, ra) = gen_operand(rng, ty, n, true, np);
    let a = build(ty, &va, &ra);
    let combo = format!("{what}({ty})");
    let res = std::panic::catch_unwind(std::panic::AssertUnwindSafe(|| match what {
        "neg" => a.neg(),
        "not" => a.not(),
        _ => unreachable!(),
    }));
    let exp: Vec<Option<Exp>> = va
        .iter()
        .map(|v| match (what, v) {
            (_, None) => Some(Exp::Null),
            ("neg", Some(Sv::I(x, w))) => Some(int_dv(-x, *w).map(Exp::Val).unwrap_or(Exp::Error("integer overflow"))),
            ("neg", Some(Sv::F(x))) => Some(Exp::Val(DataValue::Float64(F64::from(-x)))),
            ("neg", Some(Sv::D(x))) => Some(Exp::Val(DataValue::Decimal(-x))),
            ("not", Some(Sv::B(x))) => Some(Exp::Val(DataValue::Bool(!x))),
            _ => None,
        })
        .collect();
    if exp.iter().any(|e| e.is_none()) {
        return Outcome { sig: None, rows: 0, modelled: false };
    }
    let must_fail = exp.iter().any(|e| matches!(e, Some(Exp::Error(_))));
    match res {
        Err(_) => Outcome {
            sig: Some((format!("kernel-panics:{}:{combo}", if must_fail { "on-overflow" } else { "spurious" }), format!("{:?}", crate::sqlrun::drain_panics().last()))),
            rows: n,
            modelled: true,
        },
        Ok(Err(_)) => Outcome { sig: None, rows: if must_fail { n } else { 0 }, modelled: must_fail },
        Ok(Ok(out)) => {
            if must_fail {
                let i = exp.iter().position(|e| matches!(e, Some(Exp::Error(_)))).unwrap();
                return Outcome {
                    sig: Some((format!("overflow-not-reported:{combo}"), format!("{what} {} gave {:?}", show(&va[i]), out.get(i)))),
                    rows: n,
                    modelled: true,
                };
            }
            for i in 0..n {
                let got = out.get(i);
                let ok = match exp[i].as_ref().unwrap() {
                    Exp::Null => got.is_null(),
                    Exp::Val(v) => dv_same(&got, v),
                    _ => true,
                };
                if !ok {
                    return Outcome {
                        sig: Some((format!("wrong-result:{combo}"), format!("row {i}: {what} {} = {:?}, expected {:?}", show(&va[i]), got, exp[i]))),
                        rows: n,
                        modelled: true,
                    };
                }
            }
            Outcome { sig: None, rows: n, modelled: true }
        }
    }
}

fn run_select_case(rng: &mut Rng, ty: &str) -> Outcome {
    let n = *rng.pick(&[1usize, 63, 64, 65, 200]);
    let np = *rng.pick(&[0u64, 30]);
    let (vc, rc) = gen_operand(rng, "bool", n, true, np);
    let np = *rng.pick(&[0u64, 30]);
    let (va, ra) = gen_operand(rng, ty, n, true, np);
    let np = *rng.pick(&[0u64, 30]);
    let (vb, rb) = gen_operand(rng, ty, n, true, np);
    // raw bits under a NULL condition are arbitrary too
    let c = build("bool", &vc, &rc);
    let a = build(ty, &va, &ra);
    let b = build(ty, &vb, &rb);
    let combo = format!("case({ty})");
    let res = std::panic::catch_unwind(std::panic::AssertUnwindSafe(|| c.select(&a, &b)));
    match res {
        Err(_) => Outcome { sig: Some((format!("kernel-panics:spurious:{combo}"), format!("{:?}", crate::sqlrun::drain_panics().last()))), rows: n, modelled: true },
        Ok(Err(_)) => Outcome { sig: None, rows: 0, modelled: false },
        Ok(Ok(out)) => {
            for i in 0..n {
                let pick = if vc[i] == Some(Sv::B(true)) { &va[i] } else { &vb[i] };
                let got = out.get(i);
                let want = build(ty, std::slice::from_ref(pick), &ra[i..=i]).get(0);
                if !(dv_same(&got, &want) || (got.is_null() && want.is_null())) {
                    return Outcome {
                        sig: Some((
                            format!("wrong-result:{combo}"),
                            format!("row {i}: CASE WHEN {} THEN {} ELSE {} = {:?}", show(&vc[i]), show(&va[i]), show(&vb[i]), got),
                        )),
                        rows: n,
                        modelled: true,
                    };
                }
            }
            Outcome { sig: None, rows: n, modelled: true }
        }
    }
}

fn run_cast_case(rng: &mut Rng, from: &str, to: &str) -> Outcome {
    let n = *rng.pick(&[1usize, 64, 65, 130]);
    let np = *rng.pick(&[0u64, 30]);
    let (va, ra) = gen_operand(rng, from, n, true, np);
    let a = build(from, &va, &ra);
    let (dt, w) = match to {
        "int16" => (DataType::Int16, 16u8),
        "int32" => (DataType::Int32, 32),
        "int64" => (DataType::Int64, 64),
        _ => unreachable!(),
    };
    let combo = format!("cast({from}->{to})");
    let exp: Vec<Exp> = va
        .iter()
        .map(|v| match v {
            None => Exp::Null,
            Some(Sv::I(x, _)) => int_dv(*x, w).map(Exp::Val).unwrap_or(Exp::Error("out of range")),
            // a number with a fraction is truncated towards zero (the kernel's documented conversion); what is left must fit
            Some(Sv::F(x)) if x.is_finite() && x.abs() < 1e38 => int_dv(x.trunc() as i128, w).map(Exp::Val).unwrap_or(Exp::Error("out of range")),
            Some(Sv::F(_)) => Exp::Error("out of range"),
            Some(Sv::D(d)) => int_dv(d.trunc().mantissa(), w).map(Exp::Val).unwrap_or(Exp::Error("out of range")),
            _ => Exp::Null,
        })
        .collect();
    let must_fail = exp.iter().any(|e| matches!(e, Exp::Error(_)));
    let res = std::panic::catch_unwind(std::panic::AssertUnwindSafe(|| a.cast(&dt)));
    match res {
        Err(_) => Outcome { sig: Some((format!("kernel-panics:{combo}"), format!("{:?}", crate::sqlrun::drain_panics().last()))), rows: n, modelled: true },
        Ok(Err(_)) => {
            if must_fail {
                Outcome { sig: None, rows: n, modelled: true }
            } else {
                Outcome { sig: Some((format!("cast-fails:{combo}"), "in-range cast returned an error".into())), rows: n, modelled: true }
            }
        }
        Ok(Ok(out)) => {
            if must_fail {
                let i = exp.iter().position(|e| matches!(e, Exp::Error(_))).unwrap();
                return Outcome {
                    sig: Some((format!("out-of-range-cast-not-reported:{combo}"), format!("cast {} gave {:?}", show(&va[i]), out.get(i)))),
                    rows: n,
                    modelled: true,
                };
            }
            for i in 0..n {
                let got = out.get(i);
                let ok = match &exp[i] {
                    Exp::Null => got.is_null(),
                    Exp::Val(v) => dv_same(&got, v),
                    _ => true,
                };
                if !ok {
                    return Outcome { sig: Some((format!("wrong-result:{combo}"), format!("cast {} = {:?}", show(&va[i]), got))), rows: n, modelled: true };
                }
            }
            Outcome { sig: None, rows: n, modelled: true }
        }
    }
}

pub fn ops_main(args: &[String]) -> i32 {
    let seed: u64 = args.first().and_then(|s| s.parse().ok()).unwrap_or(1);
    let n: u64 = args.get(1).and_then(|s| s.parse().ok()).unwrap_or(1000);
    let shard: u64 = args.get(2).and_then(|s| s.parse().ok()).unwrap_or(0);
    let mut rng = Rng(seed.wrapping_mul(0x9E37).wrapping_add(shard.wrapping_mul(0xABCDEF)) ^ 0xC14);
    let ops = ["+", "-", "*", "/", "%", "=", "<>", "<", "<=", ">", ">=", "and", "or", "||"];
    let mut violations: BTreeMap<String, Value> = BTreeMap::new();
    let mut rows = 0usize;
    let mut cases = 0u64;
    let mut combos: BTreeMap<String, u64> = BTreeMap::new();
    let mut samples = vec![];
    let mut record = |o: Outcome, combo: String, violations: &mut BTreeMap<String, Value>, rows: &mut usize, combos: &mut BTreeMap<String, u64>| {
        if o.modelled {
            *rows += o.rows;
            *combos.entry(combo).or_default() += 1;
        }
        if let Some((sig, what)) = o.sig {
            violations.entry(sig.clone()).or_insert(json!({"signature": sig, "what": what}));
        }
    };
    for i in 0..n {
        cases += 1;
        match rng.below(10) {
            0 => {
                let ty = *rng.pick(&["int16", "int32", "int64", "float64", "decimal", "bool"]);
                let what = if ty == "bool" { "not" } else { "neg" };
                let o = run_unary_case(&mut rng, what, ty);
                record(o, format!("{what}({ty})"), &mut violations, &mut rows, &mut combos);
            }
            1 => {
                let ty = *rng.pick(&["int16", "int32", "int64", "float64", "decimal"]);
                let o = run_select_case(&mut rng, ty);
                record(o, format!("case({ty})"), &mut violations, &mut rows, &mut combos);
            }
            2 => {
                let from = *rng.pick(&["int16", "int32", "int64", "float64", "decimal"]);
                let to = *rng.pick(&["int16", "int32", "int64"]);
                let o = run_cast_case(&mut rng, from, to);
                record(o, format!("cast({from}->{to})"), &mut violations, &mut rows, &mut combos);
            }
            _ => {
                let op = *rng.pick(&ops);
                let (ta, tb) = match op {
                    "and" | "or" => ("bool", "bool"),
                    "||" => ("string", "string"),
                    _ => {
                        let ta = *rng.pick(TYPES);
                        let tb = if rng.chance(1, 2) { ta } else { *rng.pick(TYPES) };
                        (ta, tb)
                    }
                };
                // half of the cases stay away from the extremes, so that non-overflow rows dominate
                let extreme = rng.chance(1, 2);
                let o = run_binary_case(&mut rng, op, ta, tb, extreme);
                if samples.len() < 3 && o.modelled && i > 5 {
                    samples.push(json!({"op": op, "lhs": ta, "rhs": tb, "rows": o.rows}));
                }
                record(o, format!("{op}({ta},{tb})"), &mut violations, &mut rows, &mut combos);
            }
        }
    }
    println!(
        "{}",
        json!({"cases": cases, "row_evaluations": rows, "combos": combos, "violations": violations.values().collect::<Vec<_>>(), "samples": samples})
    );
    if violations.is_empty() { 0 } else { 1 }
}

pub fn main(args: &[String]) {
    crate::sqlrun::install_panic_monitor();
    let sub = args.first().map(|s| s.as_str()).unwrap_or("");
    let rc = match sub {
        "ops" => ops_main(&args[1..]),
        "values" => crate::vals::main(&args[1..]),
        "iso" => crate::iso::iso_main(&args[1..]),
        _ => {
            eprintln!("usage: rlv kern ops|values <seed> <n> [shard]");
            2
        }
    };
    let _ = async {}.now_or_never();
    std::process::exit(rc);
}
