//! rlv: verification drivers around the real risinglight crate (built with feature `verif`).
mod enc;
mod handler;
mod iso;
mod kern;
mod lab;
mod opimpl;
mod planops;
mod sched;
mod sqlrun;
mod vals;

fn main() {
    let args: Vec<String> = std::env::args().collect();
    let cmd = args.get(1).map(|s| s.as_str()).unwrap_or("");
    match cmd {
        "sql" => sqlrun::main(&args[2..]),
        "serve" => sqlrun::serve_main(&args[2..]),
        "lab" => lab::main(&args[2..]),
        "kern" => kern::main(&args[2..]),
        "sched" => sched::main(&args[2..]),
        _ => {
            eprintln!("usage: rlv sql [--mt N]");
            std::process::exit(2);
        }
    }
}
