//! C19 value-law driver: equality / ordering / hashing laws over boundary pools of every type,
//! agreement between `DataValue` ordering and the comparison kernels, and print -> parse
//! round trips through the two paths SQL uses (cast from a string literal, CSV field parser).
use std::cmp::Ordering;
use std::collections::BTreeMap;
use std::collections::hash_map::DefaultHasher;
use std::hash::{Hash, Hasher};

use risinglight::array::{ArrayBuilderImpl, ArrayImpl};
use risinglight::types::{Blob, DataType, DataValue, Date, F64, Interval, Timestamp, TimestampTz, Vector};
use rust_decimal::Decimal;
use serde_json::{Value, json};

use crate::lab::Rng;

pub(crate) fn pool(ty: &str, rng: &mut Rng, extra: usize) -> Vec<DataValue> {
    let mut v: Vec<DataValue> = match ty {
        "bool" => vec![DataValue::Bool(false), DataValue::Bool(true)],
        "int16" => [0i16, 1, -1, i16::MAX, i16::MIN, 7].iter().map(|x| DataValue::Int16(*x)).collect(),
        "int32" => [0i32, 1, -1, i32::MAX, i32::MIN, 7, 65536].iter().map(|x| DataValue::Int32(*x)).collect(),
        "int64" => [0i64, 1, -1, i64::MAX, i64::MIN, 7, 1 << 40].iter().map(|x| DataValue::Int64(*x)).collect(),
        "float64" => [0.0f64, -0.0, 1.5, -1.5, f64::NAN, f64::INFINITY, f64::NEG_INFINITY, 1e300, 1e-300, 0.1, 100.0]
            .iter()
            .map(|x| DataValue::Float64(F64::from(*x)))
            .collect(),
        "decimal" => vec![
            Decimal::new(0, 0),
            Decimal::new(0, 2),
            Decimal::new(15, 1),
            Decimal::new(150, 2),
            Decimal::new(1500, 3),
            Decimal::new(-15, 1),
            Decimal::new(1, 0),
            Decimal::new(1, 10),
            Decimal::MAX,
            Decimal::MIN,
        ]
        .into_iter()
        .map(DataValue::Decimal)
        .collect(),
        "string" => ["", "a", "A", "ab", "a ", " a", "é", "z", "NULL", "10", "9", "a'b", "a\"b,c"].iter().map(|s| DataValue::String((*s).into())).collect(),
        "blob" => vec![vec![], vec![0u8], vec![0, 0], vec![255], vec![1, 2, 3], vec![b'a'], vec![b'\\', b'x']]
            .into_iter()
            .map(|b| DataValue::Blob(Blob::from(&b[..])))
            .collect(),
        "date" => [0i32, 1, -1, 719528, 738000, 738000 + 59, 730119, 3000000, -700000].iter().map(|d| DataValue::Date(Date::new(*d))).collect(),
        // (whole seconds: the type's parser, the only way to make a value, has no fraction)
        "timestamp" => [0i64, 1_000_000, -1_000_000, 1_600_000_000_000_000, 86_400_000_000, -86_400_000_000, 951_782_400_000_000, 59_000_000]
            .iter()
            .map(|t| DataValue::Timestamp(Timestamp::new(*t)))
            .collect(),
        "timestamptz" => [0i64, 1_000_000, -1_000_000, 1_600_000_000_000_000, 86_400_000_000, -86_400_000_000, 951_782_400_000_000]
            .iter()
            .map(|t| DataValue::TimestampTz(TimestampTz::new(*t)))
            .collect(),
        "interval" => vec![
            Interval::from_days(0),
            Interval::from_days(1),
            Interval::from_days(30),
            Interval::from_days(31),
            Interval::from_months(1),
            Interval::from_months(12),
            Interval::from_years(1),
            Interval::from_md(1, -1),
            Interval::from_md(-1, 30),
            Interval::from_secs(1),
            Interval::from_secs(86400),
            Interval::from_secs(-1),
            Interval::from_md_ms(1, 2, 3000),
            Interval::from_days(-1),
        ]
        .into_iter()
        .map(DataValue::Interval)
        .collect(),
        "vector" => vec![vec![0.0, 0.0], vec![1.0, 2.0], vec![1.0, 2.5], vec![-1.0, 2.0], vec![1.0], vec![0.1, 0.2, 0.3]]
            .into_iter()
            .map(|x| DataValue::Vector(Vector::new(x)))
            .collect(),
        _ => panic!("unknown type {ty}"),
    };
    for _ in 0..extra {
        // random values of plausible magnitude (calendar types far outside any calendar are not
        // reachable through SQL literals)
        v.push(match ty {
            "date" => DataValue::Date(Date::new(rng.range(-300000, 300000) as i32)),
            "timestamp" => DataValue::Timestamp(Timestamp::new(rng.range(-4_000_000_000, 4_000_000_000) * 1_000_000)),
            "timestamptz" => DataValue::TimestampTz(TimestampTz::new(rng.range(-4_000_000_000, 4_000_000_000) * 1_000_000)),
            "interval" => DataValue::Interval(Interval::from_md_ms(rng.range(-500, 500) as i32, rng.range(-5000, 5000) as i32, rng.range(-86_400, 86_400) as i32 * 1000)),
            _ => crate::lab::gen_value(rng, ty, 0),
        });
    }
    v
}

/// Values made the way SQL makes them - by parsing a literal. The texts go beyond what the pools above hold (fractions of a
/// second, exponents, trailing zeros, unusual units); a text the type rejects denotes no value and is skipped, one it accepts
/// joins the pool, so that every law and the print -> parse round trip are checked on it.
fn literal_values(ty: &str, accepted: &mut u64, rejected: &mut u64) -> Vec<DataValue> {
    let texts: &[&str] = match ty {
        "timestamp" => &[
            "2001-02-03 04:05:06.1", "2001-02-03 04:05:06.12", "2001-02-03 04:05:06.123", "2001-02-03 04:05:06.1234",
            "2001-02-03 04:05:06.12345", "2001-02-03 04:05:06.123456", "2001-02-03 04:05:06.000001", "2001-02-03 04:05:06.999999",
            "1969-12-31 23:59:59.999999", "1969-12-31 23:59:59.5", "2001-02-03 04:05:06.100", "2001-02-03T04:05:06", "2001-02-03 04:05",
            "2001-02-03", "0001-01-01 00:00:00", "9999-12-31 23:59:59", "2001-02-03 04:05:06.1234567",
        ],
        "timestamptz" => &[
            "2001-02-03 04:05:06.1 +00:00", "2001-02-03 04:05:06.123 +00:00", "2001-02-03 04:05:06.1234 +00:00",
            "2001-02-03 04:05:06.123456 +00:00", "2001-02-03 04:05:06.000001 +08:00", "1969-12-31 23:59:59.999999 +00:00",
            "1969-12-31 23:59:59.5 -05:00", "2001-02-03 04:05:06 +05:30", "2001-02-03 04:05:06.123456+00", "2001-02-03 04:05:06Z",
        ],
        "interval" => &[
            "1.5 seconds", "0.001 seconds", "0.0001 seconds", "1 millisecond", "1500 milliseconds", "1 microsecond", "1 second 1 millisecond",
            "1 week", "1.5 hours", "-1.5 seconds", "1 day -1 second", "100 hours", "1 year 1 month 1 day 1 hour 1 minute 1 second",
        ],
        "date" => &["2000-1-1", "2000-01-01", "0001-01-01", "9999-12-31", "2000-02-29", "20000101", "0001-01-01 BC", "2000-01-01 BC"],
        "decimal" => &["1e2", "1E-2", "1.000", "0.10", "-0.0", "+1.5", ".5", "5.", "00012.50", "1_000"],
        "float64" => &["1e-7", "1e21", "1e22", "0.30000000000000004", "1e400", "-1e400", "inf", "-inf", "nan", "NaN", "5e-324", "1.7976931348623157e308", ".5", "5."],
        "int32" => &["+7", "007", " 7", "7 ", "-0", "1e2"],
        "int64" => &["+7", "007", "-0"],
        "bool" => &["t", "f", "TRUE", "False", "1", "0", "yes", "no"],
        "blob" => &["\\x", "\\x00ff", "\\xAAFF", "abc", "a\\\\b"],
        _ => &[],
    };
    let dt = crate::lab::data_type(ty);
    let mut out = vec![];
    for t in texts {
        let s = ArrayImpl::from(&DataValue::String((*t).into()));
        match std::panic::catch_unwind(std::panic::AssertUnwindSafe(|| s.cast(&dt))) {
            Ok(Ok(arr)) if !arr.get(0).is_null() => {
                *accepted += 1;
                out.push(arr.get(0));
            }
            Ok(_) => *rejected += 1,
            Err(_) => {
                crate::sqlrun::drain_panics();
                *rejected += 1;
            }
        }
    }
    out
}

fn data_type(ty: &str, v: &DataValue) -> DataType {
    match ty {
        "vector" => v.data_type(),
        _ => crate::lab::data_type(ty),
    }
}

fn hash_of(v: &DataValue) -> u64 {
    let mut h = DefaultHasher::new();
    v.hash(&mut h);
    h.finish()
}

fn short(v: &DataValue) -> String {
    let mut s = std::panic::catch_unwind(std::panic::AssertUnwindSafe(|| format!("{v:?}"))).unwrap_or_else(|_| "<unprintable>".into());
    if s.len() > 70 {
        s.truncate(70);
    }
    s
}

const TYPES: &[&str] = &[
    "bool", "int16", "int32", "int64", "float64", "decimal", "string", "blob", "date", "timestamp", "timestamptz", "interval", "vector",
];

pub fn main(args: &[String]) -> i32 {
    let seed: u64 = args.first().and_then(|s| s.parse().ok()).unwrap_or(1);
    let extra: usize = args.get(1).and_then(|s| s.parse().ok()).unwrap_or(20);
    let mut rng = Rng(seed ^ 0xC19);
    let mut violations: BTreeMap<String, Value> = BTreeMap::new();
    let mut triples = 0u64;
    let mut pairs = 0u64;
    let mut roundtrips = 0u64;
    let mut kernel_pairs = 0u64;
    let (mut lit_accepted, mut lit_rejected) = (0u64, 0u64);
    let mut per_type: BTreeMap<String, u64> = BTreeMap::new();
    let mut add = |sig: String, what: String, violations: &mut BTreeMap<String, Value>| {
        violations.entry(sig.clone()).or_insert(json!({"signature": sig, "what": what}));
    };
    for ty in TYPES {
        let mut p = pool(ty, &mut rng, if *ty == "bool" { 0 } else { extra });
        p.extend(literal_values(ty, &mut lit_accepted, &mut lit_rejected));
        *per_type.entry(ty.to_string()).or_default() += p.len() as u64;
        // ---- laws
        for a in &p {
            if a != a || a.cmp(a) != Ordering::Equal {
                add(format!("eq-not-reflexive:{ty}"), short(a), &mut violations);
            }
        }
        for a in &p {
            for b in &p {
                pairs += 1;
                let (ab, ba) = (a.cmp(b), b.cmp(a));
                if ab != ba.reverse() {
                    add(format!("cmp-not-antisymmetric:{ty}"), format!("{} vs {}", short(a), short(b)), &mut violations);
                }
                if (a == b) != (b == a) {
                    add(format!("eq-not-symmetric:{ty}"), format!("{} vs {}", short(a), short(b)), &mut violations);
                }
                if (a == b) != (ab == Ordering::Equal) {
                    add(format!("eq-cmp-disagree:{ty}"), format!("{} vs {}: eq={} cmp={:?}", short(a), short(b), a == b, ab), &mut violations);
                }
                if a == b && hash_of(a) != hash_of(b) {
                    add(format!("equal-values-hash-differently:{ty}"), format!("{} vs {}", short(a), short(b)), &mut violations);
                }
                if a.partial_cmp(b) != Some(ab) {
                    add(format!("partial-cmp-disagrees:{ty}"), format!("{} vs {}", short(a), short(b)), &mut violations);
                }
                // ---- the comparison kernels agree with DataValue ordering
                let (aa, bb) = (ArrayImpl::from(a), ArrayImpl::from(b));
                if let (Ok(lt), Ok(eq), Ok(gt)) = (aa.lt(&bb), aa.eq(&bb), aa.gt(&bb)) {
                    kernel_pairs += 1;
                    let k = (lt.get(0), eq.get(0), gt.get(0));
                    let want = (
                        DataValue::Bool(ab == Ordering::Less),
                        DataValue::Bool(ab == Ordering::Equal),
                        DataValue::Bool(ab == Ordering::Greater),
                    );
                    if k != want {
                        add(
                            format!("kernel-vs-value-order:{ty}"),
                            format!("{} vs {}: kernels (<,=,>) = {:?}, DataValue::cmp = {:?}", short(a), short(b), k, ab),
                            &mut violations,
                        );
                    }
                }
            }
        }
        for a in &p {
            for b in &p {
                for c in &p {
                    triples += 1;
                    if a == b && b == c && a != c {
                        add(format!("eq-not-transitive:{ty}"), format!("{} {} {}", short(a), short(b), short(c)), &mut violations);
                    }
                    if a.cmp(b) != Ordering::Greater && b.cmp(c) != Ordering::Greater && a.cmp(c) == Ordering::Greater {
                        add(format!("cmp-not-transitive:{ty}"), format!("{} <= {} <= {} but a > c", short(a), short(b), short(c)), &mut violations);
                    }
                }
            }
        }
        // ---- print -> parse
        for a in &p {
            let dt = data_type(ty, a);
            let arr = ArrayImpl::from(a);
            let text = match std::panic::catch_unwind(std::panic::AssertUnwindSafe(|| arr.get_to_string(0))) {
                Ok(t) => t,
                Err(_) => {
                    crate::sqlrun::drain_panics();
                    add(format!("display-panics:{ty}"), format!("printing {a:?} panics"), &mut violations);
                    continue;
                }
            };
            roundtrips += 1;
            // (1) the path of INSERT from a string literal: cast String -> T
            if *ty != "string" {
                let s = ArrayImpl::from(&DataValue::String(text.clone().into()));
                match std::panic::catch_unwind(std::panic::AssertUnwindSafe(|| s.cast(&dt))) {
                    Ok(Ok(back)) => {
                        let b = back.get(0);
                        if !crate::lab::same(&b, a) && !(matches!((&b, a), (DataValue::Float64(x), DataValue::Float64(y)) if x.0.is_nan() && y.0.is_nan())) {
                            add(format!("print-parse-differs:cast:{ty}"), format!("{} prints as {text:?} and parses back as {}", short(a), short(&b)), &mut violations);
                        }
                    }
                    Ok(Err(e)) => add(format!("print-does-not-parse:cast:{ty}"), format!("{} prints as {text:?}: {e}", short(a)), &mut violations),
                    Err(_) => {
                        crate::sqlrun::drain_panics();
                        add(format!("parse-panics:cast:{ty}"), format!("{} prints as {text:?}", short(a)), &mut violations)
                    }
                }
            }
            // (2) the path of CSV import: the array builder's string parser
            {
                let mut b = ArrayBuilderImpl::new(&dt);
                match std::panic::catch_unwind(std::panic::AssertUnwindSafe(|| b.push_str(&text).map(|_| b.finish()))) {
                    Ok(Ok(back)) => {
                        let bv = back.get(0);
                        if text.is_empty() && bv.is_null() {
                            add("print-parse-differs:csv:empty-text-reads-as-null".to_string(), format!("{} prints as the empty text, which the CSV field parser reads as NULL", short(a)), &mut violations);
                        } else if !crate::lab::same(&bv, a) && !(matches!((&bv, a), (DataValue::Float64(x), DataValue::Float64(y)) if x.0.is_nan() && y.0.is_nan())) {
                            add(format!("print-parse-differs:csv:{ty}"), format!("{} prints as {text:?} and parses back as {}", short(a), short(&bv)), &mut violations);
                        }
                    }
                    Ok(Err(e)) => add(format!("print-does-not-parse:csv:{ty}"), format!("{} prints as {text:?}: {e}", short(a)), &mut violations),
                    Err(_) => {
                        crate::sqlrun::drain_panics();
                        add(format!("parse-panics:csv:{ty}"), format!("{} prints as {text:?}", short(a)), &mut violations)
                    }
                }
            }
        }
    }
    println!(
        "{}",
        json!({"triples": triples, "pairs": pairs, "kernel_pairs": kernel_pairs, "roundtrips": roundtrips, "pool_sizes": per_type,
               "literal_texts_accepted": lit_accepted, "literal_texts_rejected": lit_rejected,
               "violations": violations.values().collect::<Vec<_>>()})
    );
    if violations.is_empty() { 0 } else { 1 }
}
