//! C14 row-isolation driver (`rlv kern iso <seed> <n> <shard>`).
//!
//! Metamorphic monitor over *every* array kernel the evaluator calls (binary operators over all
//! type pairs, unary operators, the whole cast matrix, LIKE, ||, EXTRACT, SUBSTRING, REPLACE,
//! REPEAT, CASE/select, vector distances): the value a kernel computes for row i of a batch must be
//! the value the same kernel computes for row i *alone* (a one-row array built by the ordinary
//! builder), and a batch fails exactly when some row alone fails. Batches are built with
//! `from_data`, so NULL slots carry arbitrary raw bits, and their lengths straddle the 64-bit
//! words of the validity bitmap. No reference semantics is needed: two executions of the real
//! kernel are compared, which decides "independent of batch length, of neighbouring rows and of
//! the raw bits under NULL slots" for kernels the scalar interpreter of `kern ops` does not model.
use std::collections::BTreeMap;
use std::panic::{AssertUnwindSafe, catch_unwind};

use bitvec::prelude::BitVec;
use risinglight::array::{
    ArrayBuilderImpl, ArrayFromDataExt, ArrayImpl, BoolArray, DateArray, DecimalArray, F64Array, I16Array, I32Array,
    I64Array, IntervalArray, TimestampArray,
};
use risinglight::parser::{BinaryOperator, DateTimeField as SqlField, UnaryOperator};
use risinglight::types::{DataType, DataValue, DateTimeField};
use serde_json::{Value, json};

use crate::lab::Rng;

const TYPES: &[&str] = &["int16", "int32", "int64", "float64", "decimal", "bool", "string", "date", "timestamp", "interval", "blob"];

fn dtype(ty: &str) -> DataType {
    match ty {
        "vector" => DataType::Vector(2),
        _ => crate::lab::data_type(ty),
    }
}

/// strings that matter to casts in addition to the C19 pool
const CAST_STRINGS: &[&str] = &["10", "-7", " 1", "1.5", "abc", "", "true", "false", "t", "2024-02-29", "1999-12-31 23:59:59", "32768", "2147483648", "1e3", "1 day"];

fn gen_col(rng: &mut Rng, ty: &str, n: usize, null_pct: u64, small_ints: bool) -> (Vec<Option<DataValue>>, Vec<DataValue>) {
    let mut pool = crate::vals::pool(ty, rng, 6);
    if ty == "string" {
        pool.extend(CAST_STRINGS.iter().map(|s| DataValue::String((*s).into())));
    }
    if small_ints && ty == "int32" {
        pool = [-3i32, -1, 0, 1, 2, 3, 5, 100].iter().map(|x| DataValue::Int32(*x)).collect();
    }
    if ty == "vector" {
        pool.retain(|v| matches!(v, DataValue::Vector(x) if x.len() == 2));
    }
    let vals = (0..n).map(|_| if rng.below(100) < null_pct { None } else { Some(rng.pick(&pool).clone()) }).collect();
    let raw = (0..n).map(|_| rng.pick(&pool).clone()).collect();
    (vals, raw)
}

/// batch array: NULL slots of fixed-width types carry the raw value given in `raw`
fn build_batch(ty: &str, vals: &[Option<DataValue>], raw: &[DataValue]) -> ArrayImpl {
    let valid: BitVec = vals.iter().map(|v| v.is_some()).collect();
    let at = |i: usize| vals[i].as_ref().unwrap_or(&raw[i]);
    macro_rules! prim {
        ($arr:ident, $ctor:ident, $pat:path) => {
            ArrayImpl::$ctor($arr::from_data(
                (0..vals.len()).map(|i| if let $pat(v) = at(i) { v.clone() } else { unreachable!() }),
                valid,
            ))
        };
    }
    match ty {
        "int16" => prim!(I16Array, new_int16, DataValue::Int16),
        "int32" => prim!(I32Array, new_int32, DataValue::Int32),
        "int64" => prim!(I64Array, new_int64, DataValue::Int64),
        "float64" => prim!(F64Array, new_float64, DataValue::Float64),
        "decimal" => prim!(DecimalArray, new_decimal, DataValue::Decimal),
        "bool" => prim!(BoolArray, new_bool, DataValue::Bool),
        "date" => prim!(DateArray, new_date, DataValue::Date),
        "timestamp" => prim!(TimestampArray, new_timestamp, DataValue::Timestamp),
        "interval" => prim!(IntervalArray, new_interval, DataValue::Interval),
        _ => {
            // variable-width arrays have no raw slot under NULL
            let mut b = ArrayBuilderImpl::with_capacity(vals.len(), &dtype(ty));
            for v in vals {
                b.push(v.as_ref().unwrap_or(&DataValue::Null));
            }
            b.finish()
        }
    }
}

fn build_one(ty: &str, v: &Option<DataValue>) -> ArrayImpl {
    let mut b = ArrayBuilderImpl::with_capacity(1, &dtype(ty));
    b.push(v.as_ref().unwrap_or(&DataValue::Null));
    b.finish()
}

fn same(a: &DataValue, b: &DataValue) -> bool {
    match (a, b) {
        // (Miri perturbs the results of inexact float intrinsics by a few ulp on purpose, differently on every
        // call: under the interpreter floats are compared with a tolerance)
        (DataValue::Float64(x), DataValue::Float64(y)) if cfg!(miri) => {
            x.0.to_bits() == y.0.to_bits() || (x.0.is_nan() && y.0.is_nan()) || (x.0 - y.0).abs() <= 1e-9 * x.0.abs().max(y.0.abs()).max(1.0)
        }
        (DataValue::Float64(x), DataValue::Float64(y)) => x.0.to_bits() == y.0.to_bits() || (x.0.is_nan() && y.0.is_nan()),
        (DataValue::Decimal(x), DataValue::Decimal(y)) => x == y && x.scale() == y.scale(),
        _ => a == b,
    }
}

#[derive(Clone)]
enum Kernel {
    Binary(BinaryOperator, &'static str),
    Unary(UnaryOperator, &'static str),
    Cast(DataType, &'static str),
    Like(String),
    Extract(&'static str),
    Substring,
    Replace(String, String),
    Repeat,
    Select,
    VecDist(u8),
}

impl Kernel {
    fn name(&self) -> String {
        match self {
            Kernel::Binary(_, n) => (*n).into(),
            Kernel::Unary(_, n) => (*n).into(),
            Kernel::Cast(_, to) => format!("cast->{to}"),
            Kernel::Like(_) => "like".into(),
            Kernel::Extract(f) => format!("extract-{f}"),
            Kernel::Substring => "substring".into(),
            Kernel::Replace(..) => "replace".into(),
            Kernel::Repeat => "repeat".into(),
            Kernel::Select => "case".into(),
            Kernel::VecDist(k) => ["vector-l2", "vector-cosine", "vector-neg-inner"][*k as usize].into(),
        }
    }

    fn run(&self, a: &[ArrayImpl]) -> Result<ArrayImpl, String> {
        let k = self.clone();
        let r = catch_unwind(AssertUnwindSafe(|| match &k {
            Kernel::Binary(op, _) => a[0].binary_op(op, &a[1]).map_err(|e| format!("err:{e}")),
            Kernel::Unary(op, _) => a[0].unary_op(op).map_err(|e| format!("err:{e}")),
            Kernel::Cast(ty, _) => a[0].cast(ty).map_err(|e| format!("err:{e}")),
            Kernel::Like(p) => a[0].like(p).map_err(|e| format!("err:{e}")),
            Kernel::Extract(f) => {
                let f = match *f {
                    "year" => SqlField::Year,
                    "month" => SqlField::Month,
                    _ => SqlField::Day,
                };
                a[0].extract(&DateTimeField(f)).map_err(|e| format!("err:{e}"))
            }
            Kernel::Substring => a[0].substring(&a[1], &a[2]).map_err(|e| format!("err:{e}")),
            Kernel::Replace(f, t) => a[0].replace(f, t).map_err(|e| format!("err:{e}")),
            Kernel::Repeat => a[0].repeat(&a[1]).map_err(|e| format!("err:{e}")),
            Kernel::Select => a[0].select(&a[1], &a[2]).map_err(|e| format!("err:{e}")),
            Kernel::VecDist(0) => a[0].vector_l2_distance(&a[1]).map_err(|e| format!("err:{e}")),
            Kernel::VecDist(1) => a[0].vector_cosine_distance(&a[1]).map_err(|e| format!("err:{e}")),
            Kernel::VecDist(_) => a[0].vector_neg_inner_product(&a[1]).map_err(|e| format!("err:{e}")),
        }));
        match r {
            Ok(x) => x,
            Err(p) => {
                let msg = p.downcast_ref::<String>().cloned().or_else(|| p.downcast_ref::<&str>().map(|s| s.to_string())).unwrap_or_default();
                Err(format!("panic:{}", msg.chars().take(60).collect::<String>()))
            }
        }
    }
}

/// error class: errors that name a value differ between batch and row; keep the kind only
fn class(e: &str) -> String {
    // the kind of the failure: the letters of its message up to the first value it names
    let e = e.split(|c: char| c.is_ascii_digit() || c == '\'' || c == '"').next().unwrap_or(e);
    e.chars().filter(|c| c.is_ascii_alphabetic()).take(40).collect()
}

struct Case {
    kernel: Kernel,
    types: Vec<&'static str>,
    cols: Vec<(Vec<Option<DataValue>>, Vec<DataValue>)>,
}

fn pick_len(rng: &mut Rng) -> usize {
    match rng.below(10) {
        0 => 1,
        1 => *rng.pick(&[63usize, 64, 65]),
        2 => *rng.pick(&[127usize, 128, 129]),
        3 => *rng.pick(&[191usize, 192, 193, 256, 257]),
        _ => 2 + rng.below(140) as usize,
    }
}

fn gen_case(rng: &mut Rng) -> Case {
    use BinaryOperator::*;
    let n = pick_len(rng);
    let null_pct = *rng.pick(&[0u64, 5, 30, 60, 100]);
    let ty = |rng: &mut Rng| *rng.pick(TYPES);
    let (kernel, types): (Kernel, Vec<&'static str>) = match rng.below(20) {
        0..=8 => {
            let ops: &[(BinaryOperator, &'static str)] = &[
                (Plus, "+"), (Minus, "-"), (Multiply, "*"), (Divide, "/"), (Modulo, "%"), (Eq, "="), (NotEq, "<>"), (Lt, "<"),
                (LtEq, "<="), (Gt, ">"), (GtEq, ">="), (And, "and"), (Or, "or"), (StringConcat, "||"),
            ];
            let (op, name) = rng.pick(ops).clone();
            let ta = match name {
                "and" | "or" => "bool",
                "||" => "string",
                _ => ty(rng),
            };
            let tb = if rng.chance(2, 3) { ta } else { ty(rng) };
            (Kernel::Binary(op, name), vec![ta, tb])
        }
        9 => {
            if rng.chance(1, 3) {
                (Kernel::Unary(UnaryOperator::Not, "not"), vec!["bool"])
            } else {
                (Kernel::Unary(UnaryOperator::Minus, "neg"), vec![*rng.pick(&["int16", "int32", "int64", "float64", "decimal", "interval"])])
            }
        }
        10..=13 => {
            let to = ty(rng);
            (Kernel::Cast(dtype(to), to), vec![ty(rng)])
        }
        // (regex compilation takes minutes under the Miri interpreter: LIKE is left to the native runs)
        14 if cfg!(miri) => (Kernel::Unary(UnaryOperator::Not, "not"), vec!["bool"]),
        14 => (Kernel::Like(rng.pick(&["a%", "%b", "%", "a_", "_", "", "%a%", "a.c", "1%", "%é"]).to_string()), vec!["string"]),
        15 => (Kernel::Extract(*rng.pick(&["year", "month", "day"])), vec!["date"]),
        16 => (Kernel::Substring, vec!["string", "int32", "int32"]),
        17 => {
            if rng.chance(1, 2) {
                (Kernel::Replace(rng.pick(&["a", "", "ab", "é"]).to_string(), rng.pick(&["", "x", "aa"]).to_string()), vec!["string"])
            } else {
                (Kernel::Repeat, vec!["string", "int32"])
            }
        }
        18 => {
            let t = ty(rng);
            (Kernel::Select, vec!["bool", t, t])
        }
        _ => (Kernel::VecDist(rng.below(3) as u8), vec!["vector", "vector"]),
    };
    let small = matches!(kernel, Kernel::Substring | Kernel::Repeat);
    // (the vector array builder has no NULL representation)
    let cols = types.iter().map(|t| gen_col(rng, t, n, if *t == "vector" { 0 } else { null_pct }, small)).collect();
    Case { kernel, types, cols }
}

struct Outcome {
    rows: usize,
    sig: Option<(String, String)>,
    batch_failed: bool,
}

fn run_case(c: &Case) -> Outcome {
    let n = c.cols[0].0.len();
    let batch: Vec<ArrayImpl> = c.types.iter().zip(&c.cols).map(|(t, (v, r))| build_batch(t, v, r)).collect();
    let whole = c.kernel.run(&batch);
    let combo = format!("{}({})", c.kernel.name(), c.types.join(","));
    let show = |i: usize| c.cols.iter().map(|(v, _)| format!("{:?}", v[i])).collect::<Vec<_>>().join(", ");
    let mut row_errs: Vec<(usize, String)> = vec![];
    let mut sig = None;
    for i in 0..n {
        let one: Vec<ArrayImpl> = c.types.iter().zip(&c.cols).map(|(t, (v, _))| build_one(t, &v[i])).collect();
        match (c.kernel.run(&one), &whole) {
            (Err(e), _) => row_errs.push((i, e)),
            (Ok(r), Ok(w)) => {
                if w.len() != n {
                    sig = Some((format!("iso:length-differs:{combo}"), format!("batch of {n} rows returned {} values", w.len())));
                    break;
                }
                let (a, b) = (w.get(i), r.get(0));
                if !same(&a, &b) && sig.is_none() {
                    sig = Some((
                        format!("iso:row-differs-in-batch:{combo}"),
                        format!("row {i} of {n} ({}): in the batch {a:?}, alone {b:?}", show(i)),
                    ));
                }
            }
            (Ok(_), Err(_)) => {}
        }
    }
    if sig.is_none() {
        match (&whole, row_errs.first()) {
            (Ok(_), Some((i, e))) => {
                sig = Some((
                    format!("iso:batch-ok-row-fails:{combo}"),
                    format!("row {i} of {n} ({}) alone fails with {e}, the batch returned values", show(*i)),
                ));
            }
            (Err(e), None) => {
                sig = Some((
                    format!("iso:batch-fails-no-row-does:{combo}"),
                    format!("batch of {n} rows fails with {e}; every row alone succeeds (NULL slots: {})", c.cols.iter().map(|(v, _)| v.iter().filter(|x| x.is_none()).count().to_string()).collect::<Vec<_>>().join("/")),
                ));
            }
            (Err(e), Some(_)) => {
                if !row_errs.iter().any(|(_, r)| class(r) == class(e)) {
                    sig = Some((
                        format!("iso:batch-fails-differently:{combo}"),
                        format!("batch fails with {e}; rows alone fail with {}", row_errs[0].1),
                    ));
                }
            }
            _ => {}
        }
    }
    Outcome { rows: n, sig, batch_failed: whole.is_err() }
}

fn case_json(c: &Case) -> Value {
    json!({"kernel": c.kernel.name(), "types": c.types, "rows": c.cols[0].0.len()})
}

pub fn iso_main(args: &[String]) -> i32 {
    let seed: u64 = args.first().and_then(|s| s.parse().ok()).unwrap_or(1);
    let n: u64 = args.get(1).and_then(|s| s.parse().ok()).unwrap_or(1000);
    let shard: u64 = args.get(2).and_then(|s| s.parse().ok()).unwrap_or(0);
    let mut rng = Rng(seed.wrapping_mul(0x51ED).wrapping_add(shard.wrapping_mul(0xABCDEF)) ^ 0x150);
    // the kernels' `todo!()`/unwrap panics are outcomes here, not noise on stderr
    if std::env::var("ISO_DEBUG").is_err() {
        std::panic::set_hook(Box::new(|_| {}));
    }
    let mut violations: BTreeMap<String, Value> = BTreeMap::new();
    let mut combos: BTreeMap<String, u64> = BTreeMap::new();
    let (mut rows, mut failing_batches, mut ok_batches) = (0usize, 0u64, 0u64);
    let mut samples = vec![];
    for i in 0..n {
        let c = gen_case(&mut rng);
        let o = match catch_unwind(AssertUnwindSafe(|| run_case(&c))) {
            Ok(o) => o,
            Err(p) => {
                // a panic outside the kernel call is a defect of this driver, not a verdict
                let msg = p.downcast_ref::<String>().cloned().or_else(|| p.downcast_ref::<&str>().map(|s| s.to_string())).unwrap_or_default();
                eprintln!("driver panic in case {i} {}: {msg}", case_json(&c));
                return 3;
            }
        };
        rows += o.rows;
        if o.batch_failed {
            failing_batches += 1;
        } else {
            ok_batches += 1;
            *combos.entry(format!("{}({})", c.kernel.name(), c.types.join(","))).or_default() += 1;
        }
        if samples.len() < 3 && i > 3 && !o.batch_failed {
            samples.push(case_json(&c));
        }
        if let Some((sig, what)) = o.sig {
            violations.entry(sig.clone()).or_insert(json!({"signature": sig, "what": what, "case": case_json(&c), "seed": seed, "shard": shard, "index": i}));
        }
    }
    println!(
        "{}",
        json!({"cases": n, "row_evaluations": rows, "batches_ok": ok_batches, "batches_failing": failing_batches, "combos": combos,
               "violations": violations.values().collect::<Vec<_>>(), "samples": samples})
    );
    if violations.is_empty() { 0 } else { 1 }
}
