//! Typed JSON encoding of cells.
use risinglight::array::{ArrayImpl, Chunk, DataChunk};
use risinglight::types::DataValue;
use serde_json::{Value, json};

pub fn cell(v: &DataValue) -> Value {
    match v {
        DataValue::Null => Value::Null,
        DataValue::Bool(b) => json!(*b),
        DataValue::Int16(x) => json!(*x),
        DataValue::Int32(x) => json!(*x),
        DataValue::Int64(x) => json!(*x),
        DataValue::Float64(f) => json!(format!("f:{:?}", f.0)),
        DataValue::String(s) => json!(format!("s:{}", s)),
        DataValue::Blob(b) => json!(format!("b:{}", b)),
        DataValue::Decimal(d) => json!(format!("d:{}", d)),
        DataValue::Date(d) => json!(format!("D:{}", d)),
        DataValue::Timestamp(d) => json!(format!("T:{}", d)),
        DataValue::TimestampTz(d) => json!(format!("Z:{}", d)),
        DataValue::Interval(d) => json!(format!("I:{}", d)),
        DataValue::Vector(d) => json!(format!("V:{}", d)),
    }
}

pub fn array_type(a: &ArrayImpl) -> &'static str {
    a.type_string()
}

pub fn data_chunk(c: &DataChunk) -> Value {
    let types: Vec<&str> = c.arrays().iter().map(array_type).collect();
    let mut rows = Vec::with_capacity(c.cardinality());
    for i in 0..c.cardinality() {
        let row: Vec<Value> = c.arrays().iter().map(|a| cell(&a.get(i))).collect();
        rows.push(Value::Array(row));
    }
    json!({"types": types, "n": c.cardinality(), "rows": rows})
}

/// One statement's output: list of data chunks.
pub fn chunk(c: &Chunk) -> Value {
    Value::Array(c.data_chunks().iter().map(data_chunk).collect())
}
