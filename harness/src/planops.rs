//! Plan-level operations of the SQL session runner: single-rule rewrites executed against the
//! live database (C01 rule leg), plan well-formedness and static-vs-runtime types (C16, C17).
use std::collections::{BTreeMap, HashSet};
use std::sync::Arc;

use futures::{FutureExt, TryStreamExt};
use risinglight::Database;
use risinglight::array::DataChunk;
use risinglight::binder::Binder;
use risinglight::parser::parse;
use risinglight::planner::{Config, Expr, Optimizer, RecExpr, Statistics, TypeSchemaAnalysis};
use risinglight::storage::StorageImpl;
use serde_json::{Value, json};

use crate::enc;

/// The optimizer a statement of this database is planned with: same catalog, same (real or
/// mocked) statistics, same storage configuration as `Database::run` uses.
async fn optimizer_for(db: &Database) -> Optimizer {
    let (catalog, storage) = db.verif_parts();
    let stat = db.verif_statistics().await.unwrap_or_default();
    Optimizer::new(
        catalog,
        stat,
        Config {
            enable_range_filter_scan: storage.support_range_filter_scan(),
            table_is_sorted_by_primary_key: storage.table_is_sorted_by_primary_key(),
        },
    )
}

/// Execute a plan; Ok(rows as json cells) / Err(reason)
async fn exec_plan(db: &Database, opt: &Optimizer, plan: &RecExpr) -> Result<Vec<DataChunk>, String> {
    let (_, storage) = db.verif_parts();
    let plan = plan.clone();
    let opt = opt.clone();
    let fut = async move {
        let ex = match storage {
            StorageImpl::InMemoryStorage(s) => risinglight::executor::build(opt, s, &plan),
            StorageImpl::SecondaryStorage(s) => risinglight::executor::build(opt, s, &plan),
        };
        ex.try_collect::<Vec<DataChunk>>().await
    };
    match std::panic::AssertUnwindSafe(fut).catch_unwind().await {
        Ok(Ok(chunks)) => Ok(chunks),
        Ok(Err(e)) => Err(format!("error: {e}")),
        Err(_) => {
            let p = crate::sqlrun::drain_panics();
            Err(format!("panic: {}", p.last().cloned().unwrap_or_default()))
        }
    }
}

fn rows_of(chunks: &[DataChunk]) -> Vec<String> {
    let mut rows = vec![];
    for c in chunks {
        for i in 0..c.cardinality() {
            let r: Vec<Value> = c.arrays().iter().map(|a| enc::cell(&a.get(i))).collect();
            rows.push(serde_json::to_string(&r).unwrap());
        }
    }
    rows.sort();
    rows
}

fn bind_sql(db: &Database, sql: &str) -> Result<RecExpr, String> {
    let (catalog, _) = db.verif_parts();
    let stmts = parse(sql).map_err(|e| format!("parse: {e}"))?;
    let stmt = stmts.into_iter().next().ok_or("empty")?;
    let mut binder = Binder::new(catalog);
    match std::panic::catch_unwind(std::panic::AssertUnwindSafe(|| binder.bind(stmt))) {
        Ok(Ok(p)) => Ok(p),
        Ok(Err(e)) => Err(format!("bind: {e}")),
        Err(_) => {
            crate::sqlrun::drain_panics();
            Err("bind: panic".into())
        }
    }
}

/// C01 rule leg: apply every (selected) rule at single matches on a growing pool of plans and
/// execute both sides.
pub async fn rewrite(db: &Database, cmd: &Value) -> Value {
    let sql = cmd["sql"].as_str().unwrap_or("");
    let max_matches = cmd["max_matches"].as_u64().unwrap_or(3) as usize;
    let max_pool = cmd["max_pool"].as_u64().unwrap_or(6) as usize;
    let opt = optimizer_for(db).await;
    let only: Option<HashSet<String>> = cmd["rules"]
        .as_array()
        .map(|a| a.iter().filter_map(|x| x.as_str().map(|s| s.to_string())).collect());
    let bound = match bind_sql(db, sql) {
        Ok(p) => p,
        Err(e) => return json!({"ok": false, "kind": "bind", "err": e}),
    };
    let optimized = std::panic::catch_unwind(std::panic::AssertUnwindSafe(|| opt.optimize(bound.clone())));
    let mut pool: Vec<RecExpr> = vec![bound.clone()];
    if let Ok(p) = &optimized
        && p != &bound
    {
        pool.push(p.clone());
    }
    let rule_names = opt.verif_rule_names();
    let mut per_rule: BTreeMap<String, [u64; 4]> = BTreeMap::new(); // validated, differing, lhs_not_exec, rhs_not_exec
    let mut diffs = vec![];
    let mut seen: HashSet<String> = pool.iter().map(|p| p.to_string()).collect();
    let mut base_rows_cache: std::collections::HashMap<String, Result<Vec<String>, String>> = Default::default();
    let mut i = 0;
    let mut executed = 0u64;
    while i < pool.len() && i < max_pool {
        let plan = pool[i].clone();
        for (_, name) in &rule_names {
            if let Some(only) = &only
                && !only.contains(name)
            {
                continue;
            }
            let outs = match std::panic::catch_unwind(std::panic::AssertUnwindSafe(|| opt.verif_rewrite_once(&plan, name, max_matches))) {
                Ok(o) => o,
                Err(_) => {
                    crate::sqlrun::drain_panics();
                    diffs.push(json!({"rule": name, "kind": "rewrite-panics", "lhs": plan.to_string()}));
                    continue;
                }
            };
            if outs.is_empty() {
                continue;
            }
            for (base_plan, new) in outs {
                let e = per_rule.entry(name.clone()).or_default();
                let key = base_plan.to_string();
                if !base_rows_cache.contains_key(&key) {
                    let r = exec_plan(db, &opt, &base_plan).await.map(|c| rows_of(&c));
                    executed += 1;
                    base_rows_cache.insert(key.clone(), r);
                }
                let Ok(base_rows) = base_rows_cache.get(&key).unwrap() else {
                    e[2] += 1;
                    continue;
                };
                executed += 1;
                match exec_plan(db, &opt, &new).await {
                    Ok(c) => {
                        let rows = rows_of(&c);
                        if &rows == base_rows {
                            e[0] += 1;
                            let key = new.to_string();
                            if pool.len() < max_pool && seen.insert(key) {
                                pool.push(new);
                            }
                        } else {
                            e[1] += 1;
                            if diffs.len() < 40 {
                                diffs.push(json!({"rule": name, "kind": "rows-differ", "lhs": base_plan.to_string(), "rhs": new.to_string(),
                                    "lhs_rows": base_rows.iter().take(6).collect::<Vec<_>>(), "rhs_rows": rows.iter().take(6).collect::<Vec<_>>(),
                                    "lhs_n": base_rows.len(), "rhs_n": rows.len()}));
                            }
                        }
                    }
                    Err(_why) => {
                        // an intermediate form may legitimately be non-executable (apply, prune ...)
                        e[3] += 1;
                    }
                }
            }
        }
        i += 1;
    }
    json!({"ok": true, "per_rule": per_rule, "diffs": diffs, "pool": pool.len(), "executed": executed})
}

/// Walks a plan and checks that it is executable by construction (C17).
fn wellformed(plan: &RecExpr, catalog: risinglight::catalog::RootCatalogRef) -> Vec<String> {
    use egg::Language;
    let mut issues = vec![];
    let nodes = plan.as_ref();
    // independent schema propagation through the egg analysis used by the executor builder
    let mut egraph = egg::EGraph::new(TypeSchemaAnalysis { catalog });
    let root = egraph.add_expr(plan);
    let _ = root;
    for (idx, n) in nodes.iter().enumerate() {
        match n {
            Expr::Apply(_) => issues.push("contains-apply".to_string()),
            Expr::In([_, set]) => {
                // `in` over a value list is evaluated by the executor; over a plan it is a subquery
                if !matches!(&nodes[usize::from(*set)], Expr::List(_)) {
                    issues.push("contains-in-subquery".to_string())
                }
            }
            Expr::Exists(_) => issues.push("contains-exists".to_string()),
            Expr::Max1Row(_) => issues.push("contains-max1row".to_string()),
            Expr::HashJoin([ty, cond, lk, rk, _, _]) | Expr::MergeJoin([ty, cond, lk, rk, _, _]) => {
                let nl = nodes[usize::from(*lk)].children().len();
                let nr = nodes[usize::from(*rk)].children().len();
                if nl != nr {
                    issues.push(format!("join-key-lists-differ:{nl}/{nr}"));
                }
                if nl == 0 {
                    issues.push("join-without-keys".to_string());
                }
                let is_true = matches!(&nodes[usize::from(*cond)], Expr::Constant(risinglight::types::DataValue::Bool(true)));
                let semi_anti = matches!(&nodes[usize::from(*ty)], Expr::Semi | Expr::Anti);
                let is_merge = matches!(n, Expr::MergeJoin(_));
                if !is_true && (is_merge || !semi_anti) {
                    issues.push(format!("{}-with-residual-condition", if is_merge { "mergejoin" } else { "hashjoin" }));
                }
                if is_merge && semi_anti {
                    issues.push("mergejoin-semi-anti".to_string());
                }
            }
            _ => {}
        }
        let _ = idx;
    }
    issues
}

/// Where does a plan refer to a column that its input does not produce? ("every column an operator
/// references is produced by its input", C17.)  Independent re-implementation of the executor's
/// resolution rule over the schema analysis: an expression is available if it *is* an output of
/// the input (same hash-consed id), otherwise its operands must be; a plain column that is no
/// output of the input is unresolved. Returns `<operator>:<role>` labels, used to tell apart the
/// places where a "column not found from input" panic of the real executor comes from.
fn locate_unresolved(plan: &RecExpr, catalog: risinglight::catalog::RootCatalogRef) -> Vec<String> {
    use egg::{Id, Language};
    let nodes = plan.as_ref();
    let mut egraph = egg::EGraph::new(TypeSchemaAnalysis { catalog });
    // add node by node to know the id of every plan node
    let mut ids: Vec<Id> = Vec::with_capacity(nodes.len());
    for n in nodes {
        let m = n.clone().map_children(|c| ids[usize::from(c)]);
        ids.push(egraph.add(m));
    }
    fn is_plan(n: &Expr) -> bool {
        matches!(
            n,
            Expr::Scan(_) | Expr::IndexScan(_) | Expr::Values(_) | Expr::Proj(_) | Expr::Filter(_) | Expr::Order(_) | Expr::Limit(_)
                | Expr::TopN(_) | Expr::Join(_) | Expr::HashJoin(_) | Expr::MergeJoin(_) | Expr::Apply(_) | Expr::Agg(_)
                | Expr::HashAgg(_) | Expr::SortAgg(_) | Expr::Window(_) | Expr::Empty(_)
        )
    }
    /// None = resolved; Some(via_ref) = a plain column that the input does not produce, reached
    /// through a `ref` (a reference evaluated inline because its producer is gone) or directly
    fn resolve(egraph: &egg::EGraph<Expr, TypeSchemaAnalysis>, e: Id, schema: &[Id], depth: usize, under_ref: bool) -> Option<bool> {
        if schema.contains(&e) || depth > 64 {
            return None;
        }
        let n = &egraph[e].nodes[0];
        match n {
            Expr::Column(_) => Some(under_ref),
            _ if is_plan(n) => None, // a subquery operand: reported by the walker above
            _ => {
                let r = under_ref || matches!(n, Expr::Ref(_));
                n.children().iter().find_map(|c| resolve(egraph, *c, schema, depth + 1, r))
            }
        }
    }
    fn has_empty(egraph: &egg::EGraph<Expr, TypeSchemaAnalysis>, e: Id, depth: usize) -> bool {
        let n = &egraph[e].nodes[0];
        matches!(n, Expr::Empty(_)) || (depth < 64 && n.children().iter().any(|c| has_empty(egraph, *c, depth + 1)))
    }
    let schema_of = |id: Id| -> Vec<Id> { egraph[id].data.schema.clone() };
    let mut out = vec![];
    let mut check = |what: &str, expr: Id, schema: &[Id], node: Id| {
        if let Some(via_ref) = resolve(&egraph, expr, schema, 0, false) {
            out.push(format!(
                "{what}:{}{}",
                if via_ref { "via-ref" } else { "direct" },
                if has_empty(&egraph, node, 0) { ":over-empty" } else { "" }
            ));
        }
    };
    for (i, n) in nodes.iter().enumerate() {
        let id = |c: &Id| ids[usize::from(*c)];
        match n {
            Expr::Proj([exprs, c]) => check("proj:exprs", id(exprs), &schema_of(id(c)), ids[i]),
            Expr::Filter([cond, c]) => check("filter:cond", id(cond), &schema_of(id(c)), ids[i]),
            Expr::Order([keys, c]) => check("order:keys", id(keys), &schema_of(id(c)), ids[i]),
            Expr::TopN([_, _, keys, c]) => check("topn:keys", id(keys), &schema_of(id(c)), ids[i]),
            Expr::Window([exprs, c]) => check("window:exprs", id(exprs), &schema_of(id(c)), ids[i]),
            Expr::Agg([aggs, c]) => check("agg:aggs", id(aggs), &schema_of(id(c)), ids[i]),
            Expr::HashAgg([keys, aggs, c]) | Expr::SortAgg([keys, aggs, c]) => {
                check("hashagg:keys", id(keys), &schema_of(id(c)), ids[i]);
                check("hashagg:aggs", id(aggs), &schema_of(id(c)), ids[i]);
            }
            Expr::Join([_, on, l, r]) => {
                let mut sc = schema_of(id(l));
                sc.extend(schema_of(id(r)));
                check("join:on", id(on), &sc, ids[i]);
            }
            Expr::HashJoin([_, cond, lk, rk, l, r]) | Expr::MergeJoin([_, cond, lk, rk, l, r]) => {
                let op = if matches!(n, Expr::HashJoin(_)) { "hashjoin" } else { "mergejoin" };
                check(&format!("{op}:lkey"), id(lk), &schema_of(id(l)), ids[i]);
                check(&format!("{op}:rkey"), id(rk), &schema_of(id(r)), ids[i]);
                let mut sc = schema_of(id(l));
                sc.extend(schema_of(id(r)));
                check(&format!("{op}:cond"), id(cond), &sc, ids[i]);
            }
            _ => {}
        }
    }
    out.sort();
    out.dedup();
    out
}

fn plan_types(plan: &RecExpr, catalog: risinglight::catalog::RootCatalogRef) -> Option<Vec<String>> {
    let mut egraph = egg::EGraph::new(TypeSchemaAnalysis { catalog });
    let root = egraph.add_expr(plan);
    let ty = egraph[root].data.type_.as_ref().ok()?;
    Some(ty.as_struct().iter().map(|t| format!("{t:?}")).collect())
}

/// C16/C17: bind, optimize, check well-formedness and types, build + execute.
pub async fn plancheck(db: &Database, cmd: &Value) -> Value {
    let sql = cmd["sql"].as_str().unwrap_or("");
    let (catalog, _) = db.verif_parts();
    let opt = optimizer_for(db).await;
    let bound = match bind_sql(db, sql) {
        Ok(p) => p,
        Err(e) => return json!({"ok": false, "kind": "bind", "err": e}),
    };
    let t0 = std::time::Instant::now();
    let optimized = match std::panic::catch_unwind(std::panic::AssertUnwindSafe(|| opt.optimize(bound.clone()))) {
        Ok(p) => p,
        Err(_) => {
            let p = crate::sqlrun::drain_panics();
            return json!({"ok": true, "accepted": true, "optimize_panics": p.last()});
        }
    };
    let opt_us = t0.elapsed().as_micros() as u64;
    let issues = wellformed(&optimized, catalog.clone());
    let unresolved = std::panic::catch_unwind(std::panic::AssertUnwindSafe(|| locate_unresolved(&optimized, catalog.clone()))).unwrap_or_default();
    let tb = std::panic::catch_unwind(std::panic::AssertUnwindSafe(|| plan_types(&bound, catalog.clone()))).unwrap_or(None);
    let to = std::panic::catch_unwind(std::panic::AssertUnwindSafe(|| plan_types(&optimized, catalog.clone()))).unwrap_or(None);
    crate::sqlrun::drain_panics();
    // run it
    let run = exec_plan(db, &opt, &optimized).await;
    let (exec, runtime_types, widths, nrows) = match &run {
        Ok(chunks) => {
            let mut tys: Vec<Vec<String>> = vec![];
            let mut widths = HashSet::new();
            let mut n = 0;
            for c in chunks {
                widths.insert(c.column_count());
                n += c.cardinality();
                tys.push(c.arrays().iter().map(|a| a.type_string().to_string()).collect());
            }
            (json!("ok"), tys, widths.into_iter().collect::<Vec<_>>(), n)
        }
        Err(e) => (json!(e), vec![], vec![], 0),
    };
    json!({"ok": true, "accepted": true, "issues": issues, "unresolved": unresolved, "types_bound": tb, "types_optimized": to,
           "exec": exec, "runtime_types": runtime_types, "chunk_widths": widths, "rows": nrows, "optimize_us": opt_us,
           "plan": optimized.to_string().chars().take(400).collect::<String>()})
}

pub async fn rule_names(db: &Database) -> Value {
    let opt = optimizer_for(db).await;
    json!({"ok": true, "rules": opt.verif_rule_names()})
}

#[allow(dead_code)]
pub fn unused(_: Arc<()>) {}
