//! The hook handler used by the SQL session runner.
use std::collections::{BTreeMap, HashSet};
use std::path::{Path, PathBuf};
use std::sync::Mutex;

use risinglight::verif::{Fault, Handler};
use serde_json::{Value, json};

#[derive(Default)]
pub struct State {
    /// trace events since last drain: (name, args)
    pub events: Vec<(&'static str, Vec<u64>)>,
    pub record_events: bool,
    /// operator -> chunks seen (observe mode)
    pub ops_seen: BTreeMap<String, usize>,
    /// armed fault: (operator name, index, is_end, kind)
    pub armed: Option<(String, usize, bool, Fault)>,
    pub fault_fired: bool,
    /// rules applied since last drain
    pub rules: BTreeMap<String, usize>,
    pub deny: HashSet<String>,
    /// crash snapshots: (src db dir, dst dir)
    pub crash: Option<(PathBuf, PathBuf)>,
    pub crash_seq: usize,
    pub crash_points: Vec<Value>,
    pub crash_steps_seen: BTreeMap<String, usize>,
}

#[derive(Default)]
pub struct RunnerHandler {
    pub st: Mutex<State>,
}

/// Copies the database directory while the program's own blocking-pool file operations (a vacuum's `remove_dir_all`, a
/// write in flight of another task) may still be running: an entry that vanishes between the listing and the copy is
/// skipped (that is the crash state "the unlink had already happened"), any other error fails the copy.
fn copy_dir(src: &Path, dst: &Path, vanished: &mut usize) -> std::io::Result<()> {
    use std::io::ErrorKind::NotFound;
    std::fs::create_dir_all(dst)?;
    let rd = match std::fs::read_dir(src) {
        Ok(rd) => rd,
        Err(e) if e.kind() == NotFound => {
            *vanished += 1;
            return Ok(());
        }
        Err(e) => return Err(e),
    };
    for e in rd {
        let e = match e {
            Ok(e) => e,
            Err(e) if e.kind() == NotFound => {
                *vanished += 1;
                continue;
            }
            Err(e) => return Err(e),
        };
        let p = e.path();
        let d = dst.join(e.file_name());
        if p.is_dir() {
            copy_dir(&p, &d, vanished)?;
        } else {
            match std::fs::copy(&p, &d) {
                Ok(_) => {}
                Err(e) if e.kind() == NotFound => *vanished += 1,
                Err(e) => return Err(e),
            }
        }
    }
    Ok(())
}

impl Handler for RunnerHandler {
    fn event(&self, name: &'static str, args: &[u64]) {
        let mut st = self.st.lock().unwrap();
        if st.record_events {
            st.events.push((name, args.to_vec()));
        }
    }

    fn crash_point(&self, step: &'static str, path: &Path) {
        let mut st = self.st.lock().unwrap();
        *st.crash_steps_seen.entry(step.to_string()).or_default() += 1;
        let Some((src, dst)) = st.crash.clone() else {
            return;
        };
        // only steps that concern the armed database directory
        if !(path.starts_with(&src) || path == Path::new("manifest")) {
            return;
        }
        let seq = st.crash_seq;
        st.crash_seq += 1;
        let snap = dst.join(format!("{seq:05}"));
        let mut vanished = 0usize;
        let ok = if src.exists() {
            copy_dir(&src, &snap, &mut vanished).is_ok()
        } else {
            false
        };
        // length of the live manifest at this step, independent of whether the copy succeeded (the start of the record in
        // flight for the torn variants of the next `manifest_append.written`)
        let manifest_len = std::fs::metadata(src.join("manifest.json")).map(|m| m.len()).ok();
        let rel = path
            .strip_prefix(&src)
            .map(|p| p.to_string_lossy().to_string())
            .unwrap_or_else(|_| path.to_string_lossy().to_string());
        st.crash_points
            .push(json!({"seq": seq, "step": step, "path": rel, "snap": snap.to_string_lossy(), "copied": ok,
                         "manifest_len": manifest_len, "vanished": vanished}));
    }

    fn fault(&self, op: &str, chunk_idx: usize, is_end: bool) -> Option<Fault> {
        let mut st = self.st.lock().unwrap();
        if !is_end {
            *st.ops_seen.entry(op.to_string()).or_default() += 1;
        } else {
            st.ops_seen.entry(op.to_string()).or_default();
        }
        if let Some((name, idx, end, kind)) = st.armed.clone()
            && name == op
            && idx == chunk_idx
            && end == is_end
        {
            st.armed = None;
            st.fault_fired = true;
            return Some(kind);
        }
        None
    }

    fn rules_applied(&self, rules: &[(String, usize)]) {
        let mut st = self.st.lock().unwrap();
        for (n, c) in rules {
            *st.rules.entry(n.clone()).or_default() += c;
        }
    }

    fn rule_allowed(&self, name: &str) -> bool {
        !self.st.lock().unwrap().deny.contains(name)
    }
}
