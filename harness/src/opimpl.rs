//! C11: hand-built physical plans for the same logical operator, executed by the real
//! `executor::build` on the tables of the live (in-memory) database.
use futures::{FutureExt, TryStreamExt};
use risinglight::Database;
use risinglight::array::DataChunk;
use risinglight::catalog::{ColumnRefId, TableRefId};
use risinglight::planner::{Config, Expr, Optimizer, RecExpr, Statistics};
use risinglight::storage::StorageImpl;
use risinglight::types::DataValue;
use serde_json::{Value, json};

use crate::enc;

fn table_id(db: &Database, name: &str) -> Option<(TableRefId, usize)> {
    let (catalog, _) = db.verif_parts();
    let id = catalog.get_table_id_by_name("postgres", name)?;
    let n = catalog.get_table(&id)?.all_columns().len();
    Some((id, n))
}

struct B {
    e: RecExpr,
}
impl B {
    fn add(&mut self, n: Expr) -> egg::Id {
        self.e.add(n)
    }
    fn col(&mut self, t: TableRefId, c: usize) -> egg::Id {
        self.add(Expr::Column(ColumnRefId::from_table(t, 0, c as u32)))
    }
    fn list(&mut self, ids: Vec<egg::Id>) -> egg::Id {
        self.add(Expr::List(ids.into()))
    }
    fn tru(&mut self) -> egg::Id {
        self.add(Expr::Constant(DataValue::Bool(true)))
    }
    fn scan(&mut self, t: TableRefId, ncols: usize) -> egg::Id {
        let tab = self.add(Expr::Table(t));
        let cols: Vec<_> = (0..ncols).map(|c| self.col(t, c)).collect();
        let list = self.list(cols);
        let f = self.tru();
        self.add(Expr::Scan([tab, list, f]))
    }
    fn order(&mut self, keys: Vec<(egg::Id, bool)>, child: egg::Id) -> egg::Id {
        let ks: Vec<_> = keys
            .into_iter()
            .map(|(k, desc)| if desc { self.add(Expr::Desc(k)) } else { k })
            .collect();
        let l = self.list(ks);
        self.add(Expr::Order([l, child]))
    }
}

async fn exec(db: &Database, plan: &RecExpr) -> Value {
    let (catalog, storage) = db.verif_parts();
    let opt = Optimizer::new(catalog, Statistics::default(), Config::default());
    let plan = plan.clone();
    let fut = async move {
        let ex = match storage {
            StorageImpl::InMemoryStorage(s) => risinglight::executor::build(opt, s, &plan),
            StorageImpl::SecondaryStorage(s) => risinglight::executor::build(opt, s, &plan),
        };
        ex.try_collect::<Vec<DataChunk>>().await
    };
    match std::panic::AssertUnwindSafe(fut).catch_unwind().await {
        Ok(Ok(chunks)) => {
            let mut rows = vec![];
            for c in &chunks {
                for i in 0..c.cardinality() {
                    rows.push(Value::Array(c.arrays().iter().map(|a| enc::cell(&a.get(i))).collect()));
                }
            }
            json!({"ok": true, "rows": rows, "chunks": chunks.len()})
        }
        Ok(Err(e)) => json!({"ok": false, "err": format!("{e}").chars().take(200).collect::<String>()}),
        Err(_) => json!({"ok": false, "err": "panic", "panics": crate::sqlrun::drain_panics()}),
    }
}

fn join_type(s: &str) -> Expr {
    match s {
        "inner" => Expr::Inner,
        "left_outer" => Expr::LeftOuter,
        "right_outer" => Expr::RightOuter,
        "full_outer" => Expr::FullOuter,
        "semi" => Expr::Semi,
        _ => Expr::Anti,
    }
}

pub async fn opimpl(db: &Database, cmd: &Value) -> Value {
    let kind = cmd["kind"].as_str().unwrap_or("");
    match kind {
        "join" => {
            let (Some((lt, ln)), Some((rt, rn))) = (
                table_id(db, cmd["ltable"].as_str().unwrap_or("l")),
                table_id(db, cmd["rtable"].as_str().unwrap_or("r")),
            ) else {
                return json!({"ok": false, "err": "no such table"});
            };
            let jt = cmd["jtype"].as_str().unwrap_or("inner");
            let lk: Vec<usize> = cmd["lkeys"].as_array().map(|a| a.iter().map(|x| x.as_u64().unwrap() as usize).collect()).unwrap_or_default();
            let rk: Vec<usize> = cmd["rkeys"].as_array().map(|a| a.iter().map(|x| x.as_u64().unwrap() as usize).collect()).unwrap_or_default();
            // residual: {"l": col, "op": "<", "r": col}
            let residual = cmd.get("residual").filter(|r| !r.is_null()).cloned();
            let mut out = serde_json::Map::new();
            for imp in ["join", "hashjoin", "mergejoin"] {
                if imp == "mergejoin" && (jt == "semi" || jt == "anti") {
                    continue; // the merge join executor has no semi/anti variant
                }
                if imp != "join" && residual.is_some() && jt != "semi" && jt != "anti" {
                    continue; // hash/merge join of inner/outer type require a `true` residual
                }
                let mut b = B { e: RecExpr::default() };
                let mut left = b.scan(lt, ln);
                let mut right = b.scan(rt, rn);
                let ty = b.add(join_type(jt));
                let lkeys: Vec<_> = lk.iter().map(|c| b.col(lt, *c)).collect();
                let rkeys: Vec<_> = rk.iter().map(|c| b.col(rt, *c)).collect();
                let res = residual.as_ref().map(|r| {
                    let l = b.col(lt, r["l"].as_u64().unwrap() as usize);
                    let rr = b.col(rt, r["r"].as_u64().unwrap() as usize);
                    match r["op"].as_str().unwrap_or("<") {
                        "<" => b.add(Expr::Lt([l, rr])),
                        ">" => b.add(Expr::Gt([l, rr])),
                        "<>" => b.add(Expr::NotEq([l, rr])),
                        _ => b.add(Expr::LtEq([l, rr])),
                    }
                });
                let root = if imp == "join" {
                    // condition = conjunction of key equalities and the residual
                    let mut cond = None;
                    for (l, r) in lkeys.iter().zip(rkeys.iter()) {
                        let eq = b.add(Expr::Eq([*l, *r]));
                        cond = Some(match cond {
                            None => eq,
                            Some(c) => b.add(Expr::And([c, eq])),
                        });
                    }
                    if let Some(r) = res {
                        cond = Some(match cond {
                            None => r,
                            Some(c) => b.add(Expr::And([c, r])),
                        });
                    }
                    let cond = cond.unwrap_or_else(|| b.tru());
                    b.add(Expr::Join([ty, cond, left, right]))
                } else {
                    if imp == "mergejoin" {
                        left = b.order(lkeys.iter().map(|k| (*k, false)).collect(), left);
                        right = b.order(rkeys.iter().map(|k| (*k, false)).collect(), right);
                    }
                    let cond = res.unwrap_or_else(|| b.tru());
                    let lkl = b.list(lkeys.clone());
                    let rkl = b.list(rkeys.clone());
                    if imp == "hashjoin" {
                        b.add(Expr::HashJoin([ty, cond, lkl, rkl, left, right]))
                    } else {
                        b.add(Expr::MergeJoin([ty, cond, lkl, rkl, left, right]))
                    }
                };
                let _ = root;
                out.insert(imp.to_string(), exec(db, &b.e).await);
            }
            json!({"ok": true, "results": out})
        }
        "agg" => {
            let Some((t, n)) = table_id(db, cmd["table"].as_str().unwrap_or("x")) else {
                return json!({"ok": false, "err": "no such table"});
            };
            let keys: Vec<usize> = cmd["keys"].as_array().map(|a| a.iter().map(|x| x.as_u64().unwrap() as usize).collect()).unwrap_or_default();
            let aggs: Vec<(String, usize)> = cmd["aggs"]
                .as_array()
                .map(|a| a.iter().map(|x| (x[0].as_str().unwrap().to_string(), x[1].as_u64().unwrap_or(0) as usize)).collect())
                .unwrap_or_default();
            let mut out = serde_json::Map::new();
            for imp in ["agg", "hashagg", "sortagg"] {
                if imp == "agg" && !keys.is_empty() {
                    continue;
                }
                if imp == "sortagg" && keys.is_empty() {
                    continue;
                }
                let mut b = B { e: RecExpr::default() };
                let mut child = b.scan(t, n);
                let ks: Vec<_> = keys.iter().map(|c| b.col(t, *c)).collect();
                let ags: Vec<_> = aggs
                    .iter()
                    .map(|(f, c)| {
                        let col = b.col(t, *c);
                        match f.as_str() {
                            "sum" => b.add(Expr::Sum(col)),
                            "count" => b.add(Expr::Count(col)),
                            "min" => b.add(Expr::Min(col)),
                            "max" => b.add(Expr::Max(col)),
                            "count_distinct" => b.add(Expr::CountDistinct(col)),
                            "first" => b.add(Expr::First(col)),
                            "last" => b.add(Expr::Last(col)),
                            _ => b.add(Expr::RowCount),
                        }
                    })
                    .collect();
                let al = b.list(ags);
                if imp == "agg" {
                    b.add(Expr::Agg([al, child]));
                } else {
                    let kl = b.list(ks.clone());
                    if imp == "sortagg" {
                        child = b.order(ks.iter().map(|k| (*k, false)).collect(), child);
                        b.add(Expr::SortAgg([kl, al, child]));
                    } else {
                        b.add(Expr::HashAgg([kl, al, child]));
                    }
                }
                out.insert(imp.to_string(), exec(db, &b.e).await);
            }
            json!({"ok": true, "results": out})
        }
        "topn" => {
            let Some((t, n)) = table_id(db, cmd["table"].as_str().unwrap_or("x")) else {
                return json!({"ok": false, "err": "no such table"});
            };
            let keys: Vec<(usize, bool)> = cmd["keys"]
                .as_array()
                .map(|a| a.iter().map(|x| (x[0].as_u64().unwrap() as usize, x[1].as_bool().unwrap_or(false))).collect())
                .unwrap_or_default();
            let limit = cmd["limit"].as_i64();
            let offset = cmd["offset"].as_i64().unwrap_or(0);
            let mut out = serde_json::Map::new();
            for imp in ["limit_order", "topn"] {
                let mut b = B { e: RecExpr::default() };
                let child = b.scan(t, n);
                let lim = b.add(Expr::Constant(match limit {
                    Some(l) => DataValue::Int32(l as i32),
                    None => DataValue::Null,
                }));
                let off = b.add(Expr::Constant(DataValue::Int32(offset as i32)));
                let ks: Vec<_> = keys.iter().map(|(c, d)| (b.col(t, *c), *d)).collect();
                if imp == "topn" {
                    let kl: Vec<_> = ks.iter().map(|(k, d)| if *d { b.add(Expr::Desc(*k)) } else { *k }).collect();
                    let kl = b.list(kl);
                    b.add(Expr::TopN([lim, off, kl, child]));
                } else {
                    let o = b.order(ks, child);
                    b.add(Expr::Limit([lim, off, o]));
                }
                out.insert(imp.to_string(), exec(db, &b.e).await);
            }
            json!({"ok": true, "results": out})
        }
        _ => json!({"ok": false, "err": "unknown kind"}),
    }
}
