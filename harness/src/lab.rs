//! Column / row-set laboratory drivers: C06 (encodings round-trip) and the C13 storage leg
//! (key-range scan vs. filtered full scan). Oracles never call the code under test to compute
//! the expected value: the expected content is the generated input itself.
use std::collections::BTreeMap;
use std::ops::Bound;

use risinglight::array::{ArrayBuilderImpl, ArrayImpl};
use risinglight::storage::KeyRange;
use risinglight::storage::verif_lab::{LabEncode, LabRowset};
use risinglight::types::{
    Blob, DataType, DataValue, Date, F64, Interval, Timestamp, TimestampTz, Vector,
};
use rust_decimal::Decimal;
use serde_json::{Value, json};

/// splitmix64
#[derive(Clone)]
pub struct Rng(pub u64);
impl Rng {
    pub fn next(&mut self) -> u64 {
        self.0 = self.0.wrapping_add(0x9E3779B97F4A7C15);
        let mut z = self.0;
        z = (z ^ (z >> 30)).wrapping_mul(0xBF58476D1CE4E5B9);
        z = (z ^ (z >> 27)).wrapping_mul(0x94D049BB133111EB);
        z ^ (z >> 31)
    }
    pub fn below(&mut self, n: u64) -> u64 {
        if n == 0 { 0 } else { self.next() % n }
    }
    pub fn range(&mut self, lo: i64, hi: i64) -> i64 {
        lo + self.below((hi - lo + 1) as u64) as i64
    }
    pub fn chance(&mut self, num: u64, den: u64) -> bool {
        self.below(den) < num
    }
    pub fn pick<'a, T>(&mut self, xs: &'a [T]) -> &'a T {
        &xs[self.below(xs.len() as u64) as usize]
    }
}

pub const TYPE_NAMES: &[&str] = &[
    "int16", "int32", "int64", "float64", "bool", "decimal", "date", "timestamp", "timestamptz",
    "interval", "string", "blob", "vector",
];

pub fn data_type(name: &str) -> DataType {
    match name {
        "int16" => DataType::Int16,
        "int32" => DataType::Int32,
        "int64" => DataType::Int64,
        "float64" => DataType::Float64,
        "bool" => DataType::Bool,
        "decimal" => DataType::Decimal(None, None),
        "date" => DataType::Date,
        "timestamp" => DataType::Timestamp,
        "timestamptz" => DataType::TimestampTz,
        "interval" => DataType::Interval,
        "string" => DataType::String,
        "blob" => DataType::Blob,
        "vector" => DataType::Vector(3),
        _ => panic!("unknown type {name}"),
    }
}

/// A random non-null value of the type. `card` bounds the number of distinct values (0 = wide).
pub fn gen_value(rng: &mut Rng, ty: &str, card: u64) -> DataValue {
    let k = if card > 0 { rng.below(card) as i64 } else { -1 };
    match ty {
        "int16" => DataValue::Int16(if k >= 0 {
            [0i16, 1, -1, i16::MAX, i16::MIN, 7, 300, -300][(k % 8) as usize]
        } else {
            rng.next() as i16
        }),
        "int32" => DataValue::Int32(if k >= 0 {
            [0i32, 1, -1, i32::MAX, i32::MIN, 7, 70000, -70000][(k % 8) as usize]
        } else {
            rng.next() as i32
        }),
        "int64" => DataValue::Int64(if k >= 0 {
            [0i64, 1, -1, i64::MAX, i64::MIN, 7, 1 << 40, -(1 << 40)][(k % 8) as usize]
        } else {
            rng.next() as i64
        }),
        "float64" => DataValue::Float64(F64::from(if k >= 0 {
            [0.0f64, -0.0, 1.5, f64::NAN, f64::INFINITY, f64::NEG_INFINITY, f64::MIN_POSITIVE, -2.25e300][(k % 8) as usize]
        } else {
            f64::from_bits(rng.next())
        })),
        "bool" => DataValue::Bool(if k >= 0 { k % 2 == 0 } else { rng.chance(1, 2) }),
        "decimal" => DataValue::Decimal(if k >= 0 {
            [
                Decimal::new(0, 0),
                Decimal::new(150, 2),
                Decimal::new(15, 1),
                Decimal::new(-225, 2),
                Decimal::MAX,
                Decimal::MIN,
                Decimal::new(1, 28),
                Decimal::new(1000, 3),
            ][(k % 8) as usize]
        } else {
            Decimal::new(rng.next() as i64, rng.below(20) as u32)
        }),
        "date" => DataValue::Date(Date::new(if k >= 0 {
            [0i32, 1, -1, 730000, 738000, 719528, 11016, -719528][(k % 8) as usize]
        } else {
            rng.range(-800000, 3000000) as i32
        })),
        "timestamp" => DataValue::Timestamp(Timestamp::new(if k >= 0 {
            [0i64, 1, -1, i64::MAX, i64::MIN, 1_600_000_000_000_000, 86_400_000_000, -86_400_000_000][(k % 8) as usize]
        } else {
            rng.next() as i64
        })),
        "timestamptz" => DataValue::TimestampTz(TimestampTz::new(if k >= 0 {
            [0i64, 1, -1, i64::MAX, i64::MIN, 1_600_000_000_000_000, 86_400_000_000, -86_400_000_000][(k % 8) as usize]
        } else {
            rng.next() as i64
        })),
        "interval" => DataValue::Interval(if k >= 0 {
            [
                Interval::from_days(0),
                Interval::from_days(1),
                Interval::from_months(1),
                Interval::from_md(-1, 30),
                Interval::from_secs(1),
                Interval::from_years(100),
                Interval::from_md(i32::MAX, i32::MIN),
                Interval::from_days(-1),
            ][(k % 8) as usize]
        } else {
            Interval::from_md(rng.next() as i32, rng.next() as i32)
        }),
        "string" => DataValue::String(
            if k >= 0 {
                ["", "a", "ab", "a\0b", "é✓", "NULL", "a,b\"c\n", "zzzzzzzzzzzzzzzzzzzzzzzzzzzzzzzzzzzzzzzzzzzzzzzzzzzzzzzzzzzzzzzzzzzzzzzzzzzzzzzzzzzzzzzzzzzzzzzzzzzzzzzz"][(k % 8) as usize].to_string()
            } else {
                let n = if rng.chance(1, 20) { rng.below(600) } else { rng.below(12) };
                (0..n).map(|_| (b'a' + rng.below(26) as u8) as char).collect()
            }
            .into(),
        ),
        "blob" => DataValue::Blob(Blob::from(
            &if k >= 0 {
                vec![vec![], vec![0u8], vec![255, 0, 255], vec![b'a'; 300], vec![1, 2, 3], vec![0; 5], vec![b'\n'], vec![b'x']][(k % 8) as usize].clone()
            } else {
                let n = if rng.chance(1, 20) { rng.below(600) } else { rng.below(12) };
                (0..n).map(|_| rng.next() as u8).collect::<Vec<u8>>()
            }[..],
        )),
        "vector" => DataValue::Vector(Vector::new(if k >= 0 {
            let v = [0.0, 1.0, -1.5, 3.25, 1e10, -0.0, 2.0, 7.0][(k % 8) as usize];
            vec![v, v + 1.0, -v]
        } else {
            (0..3).map(|_| (rng.next() as i32) as f64 / 8.0).collect()
        })),
        _ => panic!("unknown type {ty}"),
    }
}

pub fn build_array(ty: &DataType, vals: &[DataValue]) -> ArrayImpl {
    let mut b = ArrayBuilderImpl::with_capacity(vals.len(), ty);
    for v in vals {
        b.push(v);
    }
    b.finish()
}

/// Exact equality, floats by bits -- except that every NaN is the same value (SQL has one NaN:
/// payload and sign of a NaN can be neither written nor observed through any statement, and the
/// engine's own `F64` equality identifies them; the sign of a zero, in contrast, prints).
pub fn same(a: &DataValue, b: &DataValue) -> bool {
    fn f(p: f64, q: f64) -> bool {
        p.to_bits() == q.to_bits() || (p.is_nan() && q.is_nan())
    }
    match (a, b) {
        (DataValue::Float64(x), DataValue::Float64(y)) => f(x.0, y.0),
        (DataValue::Vector(x), DataValue::Vector(y)) => {
            x.len() == y.len() && x.iter().zip(y.iter()).all(|(p, q)| f(p.0, q.0))
        }
        _ => a == b,
    }
}

/// Both values are floating-point zeros of different sign.
fn zero_sign_only(a: &DataValue, b: &DataValue) -> bool {
    match (a, b) {
        (DataValue::Float64(x), DataValue::Float64(y)) => x.0 == 0.0 && y.0 == 0.0 && x.0.to_bits() != y.0.to_bits(),
        _ => false,
    }
}

fn short(v: &DataValue) -> String {
    let mut s = format!("{v:?}");
    if s.len() > 60 {
        s.truncate(60);
    }
    s
}

/// One column case: everything needed to rebuild it.
#[derive(Clone, Debug)]
pub struct ColCase {
    pub seed: u64,
    pub ty: String,
    pub nullable: bool,
    pub encode: String,
    pub block: usize,
    pub crc: bool,
    pub n: usize,
    pub card: u64,
    pub pattern: String,
    pub chunking: usize,
}

impl ColCase {
    pub fn to_json(&self) -> Value {
        json!({"seed": self.seed, "ty": self.ty, "nullable": self.nullable, "encode": self.encode,
               "block": self.block, "crc": self.crc, "n": self.n, "card": self.card,
               "pattern": self.pattern, "chunking": self.chunking})
    }
    pub fn from_json(v: &Value) -> Self {
        ColCase {
            seed: v["seed"].as_u64().unwrap(),
            ty: v["ty"].as_str().unwrap().into(),
            nullable: v["nullable"].as_bool().unwrap(),
            encode: v["encode"].as_str().unwrap().into(),
            block: v["block"].as_u64().unwrap() as usize,
            crc: v["crc"].as_bool().unwrap(),
            n: v["n"].as_u64().unwrap() as usize,
            card: v["card"].as_u64().unwrap(),
            pattern: v["pattern"].as_str().unwrap().into(),
            chunking: v["chunking"].as_u64().unwrap() as usize,
        }
    }
    pub fn generate(seed: u64) -> Self {
        let mut r = Rng(seed ^ 0xC06);
        let ty = r.pick(TYPE_NAMES).to_string();
        let encode = if ty == "vector" {
            "plain"
        } else {
            *r.pick(&["plain", "plain", "rle", "dict"])
        };
        let mut c = ColCase {
            seed,
            // (the vector array builder has no NULL representation)
            nullable: ty != "vector" && r.chance(1, 2),
            encode: encode.into(),
            block: *r.pick(&[16usize, 32, 64, 128, 256, 1024, 4096]),
            crc: r.chance(1, 2),
            n: *r.pick(&[0usize, 1, 2, 7, 63, 64, 65, 200, 1000, 3000]),
            card: *r.pick(&[0u64, 0, 1, 2, 3, 8]),
            pattern: r.pick(&["random", "runs", "alternate", "nullruns", "sorted", "longruns"]).to_string(),
            chunking: *r.pick(&[1usize, 7, 100, 1024, 100000]),
            ty,
        };
        if c.pattern == "longruns" {
            // runs around the 7-bit boundaries of the run-length varint (128, 16384): long enough
            // columns, mostly run-length encoded, blocks that can hold such a run
            c.n = *r.pick(&[300usize, 1000, 3000, 20000, 40000]);
            if c.ty != "vector" && r.chance(2, 3) {
                c.encode = "rle".into();
            }
            c.block = *r.pick(&[256usize, 1024, 4096, 4096]);
            c.chunking = *r.pick(&[100usize, 1024, 100000]);
        }
        c
    }
    pub fn values(&self) -> Vec<DataValue> {
        let mut r = Rng(self.seed ^ 0xDA7A);
        let mut out: Vec<DataValue> = Vec::with_capacity(self.n);
        let mut cur = gen_value(&mut r, &self.ty, self.card);
        let mut run_left = 0u64;
        let mut null_run = 0u64;
        for i in 0..self.n {
            let v = match self.pattern.as_str() {
                "runs" | "nullruns" | "longruns" => {
                    if run_left == 0 {
                        run_left = if self.pattern == "longruns" {
                            *r.pick(&[1u64, 2, 126, 127, 128, 129, 130, 255, 256, 257, 1000, 16383, 16384, 16385])
                        } else {
                            1 + r.below(40)
                        };
                        cur = gen_value(&mut r, &self.ty, self.card);
                        if self.pattern == "nullruns" && self.nullable && r.chance(1, 3) {
                            null_run = run_left;
                        }
                    }
                    run_left -= 1;
                    if null_run > 0 {
                        null_run -= 1;
                        DataValue::Null
                    } else {
                        cur.clone()
                    }
                }
                "alternate" => {
                    if i % 2 == 0 {
                        gen_value(&mut Rng(self.seed), &self.ty, self.card)
                    } else if self.nullable && i % 3 == 0 {
                        DataValue::Null
                    } else {
                        gen_value(&mut Rng(self.seed + 1), &self.ty, self.card)
                    }
                }
                _ => {
                    if self.nullable && r.chance(1, 6) {
                        DataValue::Null
                    } else {
                        gen_value(&mut r, &self.ty, self.card)
                    }
                }
            };
            out.push(v);
        }
        if self.pattern == "sorted" {
            out.sort();
        }
        out
    }
}

pub struct ColOutcome {
    pub violation: Option<(String, String)>,
    pub blocks: usize,
    pub script_ops: usize,
}

/// Build the column through the real builders and read it back through the real iterators with
/// random start positions, batch sizes and skips.
pub async fn run_col_case(case: &ColCase, scripts: usize) -> ColOutcome {
    let ty = data_type(&case.ty);
    let vals = case.values();
    let enc = match case.encode.as_str() {
        "plain" => LabEncode::Plain,
        "rle" => LabEncode::RunLength,
        _ => LabEncode::Dictionary,
    };
    let chunks: Vec<Vec<ArrayImpl>> = vals
        .chunks(case.chunking.max(1))
        .map(|c| vec![build_array(&ty, c)])
        .collect();
    let mut out = ColOutcome {
        violation: None,
        blocks: 0,
        script_ops: 0,
    };
    if vals.is_empty() {
        // the writer refuses an empty row-set by contract
        return out;
    }
    let rowset = match LabRowset::build(
        &[(ty.clone(), case.nullable)],
        &chunks,
        case.block,
        enc,
        case.crc,
        false,
        false,
    )
    .await
    {
        Ok(r) => r,
        Err(e) => {
            out.violation = Some(("build-error".into(), format!("build failed: {e}")));
            return out;
        }
    };
    out.blocks = rowset.block_count(0);
    let n = vals.len();
    let mut r = Rng(case.seed ^ 0x5C21);
    for s in 0..scripts {
        // start position: 0, last, random
        let start = match s {
            0 => 0,
            1 => n - 1,
            _ => r.below(n as u64) as usize,
        };
        // ---- column iterator, protocol-conforming use (as RowSetIterator drives it): batch
        // sizes bounded by fetch_hint, skips bounded by the remaining rows
        let mut it = match rowset.column_iter(0, start as u32).await {
            Ok(it) => it,
            Err(e) => {
                out.violation = Some(("iter-error".into(), format!("column_iter({start}) failed: {e}")));
                return out;
            }
        };
        let mut pos = start;
        let mut guard = 0;
        while pos < n {
            guard += 1;
            if guard > 4 * n + 100 {
                out.violation = Some(("no-progress".into(), format!("iterator makes no progress at row {pos} (start {start})")));
                return out;
            }
            out.script_ops += 1;
            let rid = it.fetch_current_row_id() as usize;
            if rid != pos {
                out.violation = Some((
                    "row-id".into(),
                    format!("fetch_current_row_id()={rid} but {pos} rows were consumed (start {start})"),
                ));
                return out;
            }
            let (hint, _finished) = it.fetch_hint();
            if r.chance(1, 4) && hint > 0 {
                let k = 1 + r.below(hint.min(n - pos) as u64) as usize;
                it.skip(k);
                pos += k;
                continue;
            }
            // scripts 0..2 stay within fetch_hint (the way RowSetIterator drives a column); the later
            // scripts also ask for batches that span several blocks, which `ConcreteColumnIterator`
            // supports by design (it moves on to the next block until `expected_size` is reached)
            let span = s >= 2 && std::env::var("RLV_LAB_NO_SPAN").is_err();
            let want = match r.below(if span { 6 } else { 4 }) {
                0 => None,
                1 => Some(1),
                2 => Some(1 + r.below(hint.max(1) as u64) as usize),
                3 => Some(hint.max(1)),
                _ => Some(hint + 1 + r.below((3 * hint + 40) as u64) as usize),
            };
            match it.next_batch(want).await {
                Ok(Some((row_id, arr))) => {
                    if row_id as usize != pos {
                        out.violation = Some((
                            "row-id".into(),
                            format!("batch reports row_id {row_id}, expected {pos} (start {start})"),
                        ));
                        return out;
                    }
                    if let Some(w) = want
                        && arr.len() > w
                    {
                        out.violation = Some(("batch-too-long".into(), format!("asked {w} got {}", arr.len())));
                        return out;
                    }
                    if arr.len() == 0 {
                        // an empty batch is allowed by the trait ("0 means no element in this
                        // batch"), progress is guarded above
                        continue;
                    }
                    if pos + arr.len() > n {
                        out.violation = Some(("reads-past-end".into(), format!("batch [{pos},{}) of {n} rows", pos + arr.len())));
                        return out;
                    }
                    for j in 0..arr.len() {
                        let got = arr.get(j);
                        if !same(&got, &vals[pos + j]) {
                            let sig = if zero_sign_only(&got, &vals[pos + j]) { "zero-sign-lost" } else { "value-differs" };
                            out.violation = Some((
                                sig.into(),
                                format!("row {}: read {} but wrote {} (start {start})", pos + j, short(&got), short(&vals[pos + j])),
                            ));
                            return out;
                        }
                    }
                    pos += arr.len();
                }
                Ok(None) => {
                    out.violation = Some(("early-end".into(), format!("iterator ended at row {pos} of {n} (start {start})")));
                    return out;
                }
                Err(e) => {
                    out.violation = Some(("read-error".into(), format!("next_batch at row {pos}: {e}")));
                    return out;
                }
            }
        }
        // ---- the row-set iterator over the same column with delete vectors
        if s < 2 {
            let mut deleted: Vec<u32> = vec![];
            if r.chance(1, 2) {
                for i in 0..n {
                    if r.chance(1, 5) {
                        deleted.push(i as u32);
                    }
                }
                if r.chance(1, 4) {
                    // a long deleted range spanning blocks
                    let a = r.below(n as u64) as u32;
                    let b = (a + r.below(300) as u32).min(n as u32);
                    deleted.extend(a..b);
                }
                deleted.sort();
                deleted.dedup();
            }
            let dvs: Vec<Vec<u32>> = if deleted.is_empty() {
                vec![]
            } else if r.chance(1, 2) {
                vec![deleted.clone()]
            } else {
                // split over two delete vectors
                let (a, b): (Vec<u32>, Vec<u32>) = deleted.iter().partition(|x| **x % 2 == 0);
                vec![a, b].into_iter().filter(|v| !v.is_empty()).collect()
            };
            let expect: Vec<&DataValue> = (start..n)
                .filter(|i| deleted.binary_search(&(*i as u32)).is_err())
                .map(|i| &vals[i])
                .collect();
            let mut it = match rowset.rowset_iter(&[Some(0)], &dvs, start as u32, None).await {
                Ok(it) => it,
                Err(e) => {
                    out.violation = Some(("iter-error".into(), format!("rowset_iter failed: {e}")));
                    return out;
                }
            };
            let mut got: Vec<DataValue> = vec![];
            loop {
                out.script_ops += 1;
                let want = match r.below(3) {
                    0 => None,
                    1 => Some(1 + r.below(50) as usize),
                    _ => Some(1),
                };
                match it.next_batch(want).await {
                    Ok(Some(chunk)) => {
                        let a = chunk.array_at(0);
                        for j in 0..a.len() {
                            got.push(a.get(j));
                        }
                        if got.len() > n + 10 {
                            break;
                        }
                    }
                    Ok(None) => break,
                    Err(e) => {
                        out.violation = Some(("read-error".into(), format!("rowset next_batch: {e}")));
                        return out;
                    }
                }
            }
            if got.len() != expect.len() || got.iter().zip(expect.iter()).any(|(a, b)| !same(a, b)) {
                let first = got.iter().zip(expect.iter()).position(|(a, b)| !same(a, b));
                let only_zero_sign = got.len() == expect.len()
                    && got.iter().zip(expect.iter()).all(|(a, b)| same(a, b) || zero_sign_only(a, b));
                out.violation = Some((
                    if only_zero_sign { "zero-sign-lost" } else { "rowset-scan-differs" }.into(),
                    format!(
                        "row-set scan from {start} with {} deleted rows returned {} rows, expected {}; first difference at {:?}",
                        deleted.len(),
                        got.len(),
                        expect.len(),
                        first
                    ),
                ));
                return out;
            }
        }
    }
    out
}

pub async fn col_main(args: &[String]) -> i32 {
    let seed: u64 = args.first().and_then(|s| s.parse().ok()).unwrap_or(1);
    let n: u64 = args.get(1).and_then(|s| s.parse().ok()).unwrap_or(100);
    let shard: u64 = args.get(2).and_then(|s| s.parse().ok()).unwrap_or(0);
    // cap on the column length (interpreter-speed runs: Miri)
    let max_n: usize = args.get(3).and_then(|s| s.parse().ok()).unwrap_or(usize::MAX);
    let mut cases = 0u64;
    let mut blocks = 0usize;
    let mut ops = 0usize;
    let mut by_combo: BTreeMap<String, u64> = BTreeMap::new();
    let mut nontrivial = 0u64;
    let mut violations: Vec<Value> = vec![];
    let mut samples: Vec<Value> = vec![];
    for i in 0..n {
        let mut case = ColCase::generate(seed.wrapping_mul(1_000_003).wrapping_add(shard * 10_000_019).wrapping_add(i));
        case.n = case.n.min(max_n);
        use futures::FutureExt;
        let o = match std::panic::AssertUnwindSafe(run_col_case(&case, 4)).catch_unwind().await {
            Ok(o) => o,
            Err(_) => ColOutcome {
                violation: Some((
                    "panic".into(),
                    format!("panic: {:?}", crate::sqlrun::drain_panics().last()),
                )),
                blocks: 0,
                script_ops: 0,
            },
        };
        cases += 1;
        blocks += o.blocks;
        ops += o.script_ops;
        *by_combo
            .entry(format!("{}/{}/{}", case.ty, case.encode, if case.nullable { "null" } else { "nonnull" }))
            .or_default() += 1;
        if o.blocks > 1 {
            nontrivial += 1;
        }
        if samples.len() < 3 && o.blocks > 1 {
            samples.push(case.to_json());
        }
        if let Some((sig, what)) = o.violation {
            // at most 3 witnesses per signature; the run goes on (an open finding must not starve it)
            let signature = format!("{}:{}/{}", sig, case.ty, case.encode);
            let seen = violations.iter().filter(|v| v["signature"].as_str() == Some(signature.as_str())).count();
            if seen < 3 {
                violations.push(json!({"signature": signature, "what": what, "case": case.to_json()}));
            }
            if violations.len() >= 120 {
                break;
            }
        }
    }
    println!(
        "{}",
        json!({"cases": cases, "multi_block_cases": nontrivial, "blocks": blocks, "iterator_ops": ops,
               "combos": by_combo, "violations": violations, "samples": samples})
    );
    if violations.is_empty() { 0 } else { 1 }
}

pub async fn col_replay(arg: &str) -> i32 {
    let v: Value = serde_json::from_str(arg).unwrap();
    let case = ColCase::from_json(&v);
    let o = run_col_case(&case, 4).await;
    match o.violation {
        Some((sig, what)) => {
            println!("VIOLATION-REPRO {sig}: {what}");
            1
        }
        None => {
            println!("holds ({} blocks, {} iterator ops)", o.blocks, o.script_ops);
            0
        }
    }
}

// ------------------------------------------------------------------------------------------
// C13 storage leg

fn range_case(seed: u64) -> Value {
    let mut r = Rng(seed ^ 0xC13);
    let n = *r.pick(&[1u64, 5, 40, 200, 1500]);
    let block = *r.pick(&[16u64, 32, 64, 256, 4096]);
    // sorted int32 keys (the storage keeps a primary-key row-set sorted); the key column is not
    // enforced unique, so half of the cases carry runs of duplicates
    let dups = r.chance(1, 2);
    let mut keys: Vec<i32> = vec![];
    let mut k = r.range(-50, 50) as i32;
    for _ in 0..n {
        keys.push(k);
        k += if dups { *r.pick(&[0i32, 0, 0, 0, 1, 2]) } else { 1 + r.below(4) as i32 };
    }
    let pick = |r: &mut Rng| -> i32 {
        match r.below(5) {
            0 => keys[r.below(keys.len() as u64) as usize],
            1 => keys[0] - 1 - r.below(3) as i32,
            2 => keys[keys.len() - 1] + 1 + r.below(3) as i32,
            3 => keys[r.below(keys.len() as u64) as usize] + 1,
            _ => r.range(-60, keys[keys.len() - 1] as i64 + 5) as i32,
        }
    };
    let lo = pick(&mut r);
    let hi = pick(&mut r);
    let lo_kind = r.below(3);
    let hi_kind = r.below(3);
    let ndel = if r.chance(1, 2) { r.below(n) } else { 0 };
    let mut del: Vec<u32> = (0..ndel).map(|_| r.below(n) as u32).collect();
    del.sort();
    del.dedup();
    json!({"seed": seed, "keys": keys, "block": block, "lo": lo, "hi": hi, "lo_kind": lo_kind, "hi_kind": hi_kind,
           "deleted": del, "batch": r.below(3), "crc": r.chance(1, 2)})
}

async fn run_range_case(c: &Value) -> (Option<(String, String)>, usize) {
    let keys: Vec<i32> = c["keys"].as_array().unwrap().iter().map(|x| x.as_i64().unwrap() as i32).collect();
    let n = keys.len();
    let kv: Vec<DataValue> = keys.iter().map(|k| DataValue::Int32(*k)).collect();
    let payload: Vec<DataValue> = (0..n).map(|i| DataValue::Int64(i as i64 * 10)).collect();
    let chunks = vec![vec![build_array(&DataType::Int32, &kv), build_array(&DataType::Int64, &payload)]];
    let rowset = match LabRowset::build(
        &[(DataType::Int32, false), (DataType::Int64, true)],
        &chunks,
        c["block"].as_u64().unwrap() as usize,
        LabEncode::Plain,
        c["crc"].as_bool().unwrap(),
        true,
        true,
    )
    .await
    {
        Ok(r) => r,
        Err(e) => return (Some(("build-error".into(), e.to_string())), 0),
    };
    let lo = c["lo"].as_i64().unwrap() as i32;
    let hi = c["hi"].as_i64().unwrap() as i32;
    let b = |kind: u64, v: i32| match kind {
        0 => Bound::Unbounded,
        1 => Bound::Included(DataValue::Int32(v)),
        _ => Bound::Excluded(DataValue::Int32(v)),
    };
    let range = KeyRange {
        start: b(c["lo_kind"].as_u64().unwrap(), lo),
        end: b(c["hi_kind"].as_u64().unwrap(), hi),
    };
    let deleted: Vec<u32> = c["deleted"].as_array().unwrap().iter().map(|x| x.as_u64().unwrap() as u32).collect();
    let inside = |k: i32| -> bool {
        (match c["lo_kind"].as_u64().unwrap() {
            0 => true,
            1 => k >= lo,
            _ => k > lo,
        }) && (match c["hi_kind"].as_u64().unwrap() {
            0 => true,
            1 => k <= hi,
            _ => k < hi,
        })
    };
    let expect: Vec<(i32, i64)> = (0..n)
        .filter(|i| deleted.binary_search(&(*i as u32)).is_err() && inside(keys[*i]))
        .map(|i| (keys[i], i as i64 * 10))
        .collect();
    // exactly what SecondaryTransaction::scan does: seek with the begin key, then filter
    let begin = match &range.start {
        Bound::Included(k) | Bound::Excluded(k) => Some(k.clone()),
        _ => None,
    };
    let start = rowset.start_rowid(begin.as_ref()).await;
    let dvs = if deleted.is_empty() { vec![] } else { vec![deleted.clone()] };
    let mut it = match rowset.rowset_iter(&[Some(0), Some(1)], &dvs, start, Some(range)).await {
        Ok(it) => it,
        Err(e) => return (Some(("iter-error".into(), e.to_string())), 0),
    };
    let mut got: Vec<(i32, i64)> = vec![];
    let want = match c["batch"].as_u64().unwrap() {
        0 => None,
        1 => Some(1usize),
        _ => Some(17usize),
    };
    loop {
        match it.next_batch(want).await {
            Ok(Some(chunk)) => {
                for j in 0..chunk.cardinality() {
                    let k = match chunk.array_at(0).get(j) {
                        DataValue::Int32(k) => k,
                        _ => i32::MIN,
                    };
                    let p = match chunk.array_at(1).get(j) {
                        DataValue::Int64(p) => p,
                        _ => i64::MIN,
                    };
                    got.push((k, p));
                }
                if got.len() > n + 5 {
                    break;
                }
            }
            Ok(None) => break,
            Err(e) => return (Some(("read-error".into(), e.to_string())), expect.len()),
        }
    }
    if got != expect {
        let missing: Vec<_> = expect.iter().filter(|x| !got.contains(x)).take(3).collect();
        let extra: Vec<_> = got.iter().filter(|x| !expect.contains(x)).take(3).collect();
        return (
            Some((
                "range-scan-differs".into(),
                format!(
                    "scan(filter) returned {} rows, filter(scan) {} rows; missing {:?} extra {:?}; start_rowid={start}",
                    got.len(),
                    expect.len(),
                    missing,
                    extra
                ),
            )),
            expect.len(),
        );
    }
    (None, expect.len())
}

pub async fn range_main(args: &[String]) -> i32 {
    let seed: u64 = args.first().and_then(|s| s.parse().ok()).unwrap_or(1);
    let n: u64 = args.get(1).and_then(|s| s.parse().ok()).unwrap_or(100);
    let mut violations: Vec<Value> = vec![];
    let mut nonempty = 0u64;
    let mut rows = 0usize;
    let mut sample = Value::Null;
    for i in 0..n {
        let c = range_case(seed.wrapping_mul(7_000_003).wrapping_add(i));
        use futures::FutureExt;
        let (v, k) = match std::panic::AssertUnwindSafe(run_range_case(&c)).catch_unwind().await {
            Ok(x) => x,
            Err(_) => (
                Some(("panic".into(), format!("panic: {:?}", crate::sqlrun::drain_panics().last()))),
                0,
            ),
        };
        if k > 0 {
            nonempty += 1;
            if sample.is_null() && c["keys"].as_array().unwrap().len() <= 5 {
                sample = c.clone();
            }
        }
        rows += k;
        if let Some((sig, what)) = v {
            let seen = violations.iter().filter(|v| v["signature"].as_str() == Some(sig.as_str())).count();
            if seen < 3 {
                violations.push(json!({"signature": sig, "what": what, "case": c}));
            }
            if violations.len() >= 60 {
                break;
            }
        }
    }
    println!(
        "{}",
        json!({"cases": n, "nonempty": nonempty, "rows_compared": rows, "violations": violations, "sample": sample})
    );
    if violations.is_empty() { 0 } else { 1 }
}

pub async fn range_replay(arg: &str) -> i32 {
    let c: Value = serde_json::from_str(arg).unwrap();
    match run_range_case(&c).await.0 {
        Some((sig, what)) => {
            println!("VIOLATION-REPRO {sig}: {what}");
            1
        }
        None => {
            println!("holds");
            0
        }
    }
}

pub fn main(args: &[String]) {
    crate::sqlrun::install_panic_monitor();
    let rt = tokio::runtime::Builder::new_current_thread().enable_all().build().unwrap();
    let sub = args.first().map(|s| s.as_str()).unwrap_or("");
    let rc = rt.block_on(async {
        match sub {
            "col" => col_main(&args[1..]).await,
            "col-replay" => col_replay(&args[1]).await,
            "range" => range_main(&args[1..]).await,
            "range-replay" => range_replay(&args[1]).await,
            _ => {
                eprintln!("usage: rlv lab col|col-replay|range|range-replay ...");
                2
            }
        }
    });
    std::process::exit(rc);
}
