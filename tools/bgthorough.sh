#!/bin/bash
# usage (through `vp run --with-repo -- tools/bgthorough.sh <tier> <seed> Cxx...`): run checks from a snapshot of /verif against a
# snapshot of /repo's HEAD, both bind-mounted over their usual paths inside a private mount namespace, so that seeded-change
# experiments on /repo's working tree cannot disturb the run (and panic-site paths keep their /repo/ prefix).
# Results of such runs are not evidence; whatever they find is re-run in /verif against /repo.
TIER=$1; SEED=$2; shift 2
SNAP=$PWD; REPO=${VP_RUN_REPO:?needs --with-repo}
exec unshare -m bash -c "mount --bind $REPO /repo && mount --bind $SNAP /verif && cd /verif && for c in $*; do echo \"### \$c\"; VERIF_SEED=$SEED nice -n 15 ./check \$c --tier $TIER 2>&1 | grep -E '^VIOLATION|^KNOWN-FINDING|VIOLATED|INCONCLUSIVE|held on|inconclusive' | cut -c1-400; done; echo BG-DONE"
