#!/bin/bash
# usage: seedconfirm.sh <worktree> <change-dir>   -- confirm a seeded change in a scratch worktree:
#   demo fails with the patch, the repo's test suite passes with the patch, demo passes without it.
WT=$1; CH=$2; OUT=$CH/confirmation.txt
export CARGO_NET_OFFLINE=true
[ -d ${WT}-target ] && export CARGO_TARGET_DIR=${WT}-target
BIN=${CARGO_TARGET_DIR:-target}/debug/risinglight
cd $WT || exit 2
: > $OUT
git status --porcelain --untracked-files=no | grep -q . && { echo "worktree dirty" >> $OUT; exit 2; }
rundemos() { # $1 = label
  for d in $CH/demo*.rs; do
    [ -f $d ] || continue
    n=seeded_$(basename $d .rs)
    cp $d tests/$n.rs
    feat=""; grep -q "risinglight::verif\|verif_lab" $d && feat="--features verif"
    cargo test --offline $feat --test $n -- --test-threads 1 > $CH/confirm_$1_$(basename $d .rs).log 2>&1
    rc=$?
    echo "demo $(basename $d) $1: exit=$rc $(grep -E '^test result' $CH/confirm_$1_$(basename $d .rs).log | head -1)" >> $OUT
    rm -f tests/$n.rs
  done
  for d in $CH/demo*.slt; do
    [ -f $d ] || continue
    cargo build --offline > /dev/null 2>&1
    RUST_BACKTRACE=0 $BIN -f $d > $CH/confirm_$1_$(basename $d .slt).log 2>&1
    rc=$?
    echo "demo $(basename $d) $1 (CLI, in-memory): exit=$rc" >> $OUT
  done
}
git apply $CH/patch.diff || { echo "patch does not apply" >> $OUT; exit 2; }
rundemos with_patch
cargo nextest run --workspace --no-fail-fast --test-threads 4 --offline > $CH/confirm_suite.log 2>&1
rc=$?
echo "suite with_patch: exit=$rc $(grep -E '^\s*Summary' $CH/confirm_suite.log | tail -1)" >> $OUT
git checkout -- . 
rundemos clean
cat $OUT
