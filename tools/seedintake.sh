#!/bin/bash
# usage: seedintake.sh <round-dir> <Cxx> <seeded-dir-name>
# Takes a sub-agent's delivery (<round-dir>/<Cxx>/out), confirms it in the agent's own scratch worktree (demo fails with the
# change, repository suite passes with it, demo passes without it) and removes the worktree with its build output.
RD=$1; P=$2; NAME=$3
S=/verif/seeded/$NAME
mkdir -p $S
cp $RD/$P/out/patch.diff $RD/$P/out/notes.md $S/ 2>/dev/null
cp $RD/$P/out/demo*.rs $RD/$P/out/demo*.slt $S/ 2>/dev/null
WT=$RD/$P/wt
[ -d $RD/$P/target ] && mv $RD/$P/target ${WT}-target
git -C $WT checkout -q -- . ; rm -f $WT/tests/seeded_*.rs
/verif/tools/seedconfirm.sh $WT $S > /dev/null 2>&1
git -C /repo worktree remove --force $WT; rm -rf ${WT}-target $RD/$P/target
cat $S/confirmation.txt
