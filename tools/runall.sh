#!/bin/bash
# usage: runall.sh <tier> <seed> [checks...]   run checks sequentially; summary with exit codes and wall time
TIER=${1:-quick}; SEED=${2:-1}; shift 2
CHECKS=${@:-C01 C02 C03 C04 C05 C06 C07 C08 C09 C10 C11 C12 C13 C14 C15 C16 C17 C18 C19 C20}
OUT=${RUNALL_OUT:-/dev/shm/runall-$TIER-$SEED}
mkdir -p $OUT
cd /verif
for c in $CHECKS; do
  t0=$(date +%s)
  VERIF_SEED=$SEED ./check $c --tier $TIER > $OUT/$c.out 2> $OUT/$c.err
  rc=$?
  t1=$(date +%s)
  echo "$c $TIER seed=$SEED exit=$rc wall=$((t1-t0))s $(grep -c '^VIOLATION' $OUT/$c.out) violations, $(grep -c '^KNOWN-FINDING' $OUT/$c.out) known | $(tail -1 $OUT/$c.out | cut -c1-160)" | tee -a $OUT/summary.txt
done
