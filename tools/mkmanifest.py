#!/usr/bin/env python3
"""Regenerates MANIFEST.json from the table below (single source of truth for check registration)."""
import json, os, subprocess
HERE = os.path.dirname(os.path.dirname(os.path.abspath(__file__)))
props = [json.loads(l) for l in open(os.path.join(HERE, "properties.jsonl"))]

CHECKS = {
 "C03": dict(cat="exploration", tech="model-based runtime monitor over reopen histories (real Database on disk vs Python table model)",
   text="Random DDL/DML/compaction/reopen histories run against the real on-disk engine; after every reopen catalog and row multisets are compared with an independent model of the acknowledged statements. Decides the property on the histories produced, not for all histories.",
   note="Trusted: the Python table model (3VL predicate evaluator), the runner protocol. Clean shutdown only. Views/indexes/functions exercised, only base tables asserted.", ref="6 C03"),
 "C05": dict(cat="exploration", tech="differential runtime monitoring: memory engine vs disk engine (several layouts), separate processes",
   text="The same statement sequences run on the memory engine and on 2-5 disk layouts; outcome class and row multisets (key sequence under ORDER BY) must agree. Decides the property on the sequences produced.",
   note="Identical mocked statistics on all engines (cost-based choice is C01's subject); error texts not compared; NULL literals in expressions and aggregates over constants not generated (see DESIGN).", ref="6 C05"),
}

def main():
    commits = subprocess.check_output(["git", "-C", "/repo", "log", "--format=%h %s"], text=True).splitlines()
    hook_commits = [l.split()[0] for l in commits if l.split(" ", 1)[1].startswith("verif:")]
    checks = []
    for p in props:
        pid = p["id"]
        if pid not in CHECKS:
            continue
        c = CHECKS[pid]
        checks.append({
            "property_id": pid,
            "quick_cmd": f"./check {pid} --tier quick",
            "thorough_cmd": f"./check {pid} --tier thorough",
            "evidence_file": f"/verif/evidence/{pid}.json",
            "replay_cmd_template": f"./check {pid} --replay {{path}}",
            "engine": "rlverif",
            "level_claimed": {"category": c["cat"], "text": c["text"], "design_ref": c["ref"]},
            "level_note": c["note"],
            "technique": c["tech"],
        })
    na = [{"property_id": p["id"], "reason": "check not built yet (build phase in progress); see DESIGN.md section 6"}
          for p in props if p["id"] not in CHECKS]
    m = {
        "version": 1,
        "setup_cmd": "cd /verif/harness && CARGO_NET_OFFLINE=true cargo build --release --offline",
        "hooks": {
            "guard": "cargo feature `verif` of the risinglight crate (off by default)",
            "enable": "the harness crate /verif/harness depends on risinglight by path (/repo) with features=[\"verif\"], default-features=false",
            "baseline_off_cmd": "cd /repo && cargo nextest run --workspace --no-fail-fast --offline --test-threads 8 || cargo test --workspace --no-fail-fast --offline",
            "source_commits": hook_commits[::-1],
            "add_only": True,
        },
        "engines": [{"name": "rlverif", "path": "/verif/harness", "serves_properties": sorted(CHECKS),
                     "kind_free_text": "Rust runner/driver binary `rlv` around the real crate with hooks + Python supervisor, generators, models and oracles (/verif/py)"}],
        "checks": checks,
        "not_applicable": na,
        "notes": "Family: runtime monitoring and sanitizers. Exit codes: 0 held on what was observed, 1 VIOLATION, 2 inconclusive (build failure / coverage floor missed).",
    }
    json.dump(m, open(os.path.join(HERE, "MANIFEST.json"), "w"), indent=1)

if __name__ == "__main__":
    main()
