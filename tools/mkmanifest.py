#!/usr/bin/env python3
"""Regenerates MANIFEST.json from the table below (single source of truth for check registration)."""
import json, os, subprocess
HERE = os.path.dirname(os.path.dirname(os.path.abspath(__file__)))
props = [json.loads(l) for l in open(os.path.join(HERE, "properties.jsonl"))]

CHECKS = {
 "C03": dict(cat="exploration", tech="model-based runtime monitor over reopen histories (real Database on disk vs Python table model)",
   text="Random DDL/DML/compaction/reopen histories run against the real on-disk engine; after every reopen catalog and row multisets are compared with an independent model of the acknowledged statements. Decides the property on the histories produced, not for all histories.",
   note="Trusted: the Python table model (3VL predicate evaluator), the runner protocol. Clean shutdown only. Views/indexes/functions exercised, only base tables asserted.", ref="6 C03"),
 "C05": dict(cat="exploration", tech="differential runtime monitoring: memory engine vs disk engine (several layouts), separate processes",
   text="The same statement sequences run on the memory engine and on 2-5 disk layouts; outcome class and row multisets (key sequence under ORDER BY) must agree. Decides the property on the sequences produced.",
   note="Identical mocked statistics on all engines (cost-based choice is C01's subject); error texts not compared; NULL literals in expressions and aggregates over constants not generated (see DESIGN).", ref="6 C05"),
 "C06": dict(cat="exploration", tech="round-trip runtime monitor over the real column builders/iterators (hooked lab), input itself is the oracle; thorough tier adds sanitizer overlays of the same workload (ASan + Miri), reports with risinglight frames are violations",
   text="Random columns of every type/encoding/nullability/block size are built by the real builders and read back through the real column and row-set iterators with random start rows, batch sizes, skips and delete vectors; every returned (row_id, batch) is compared with the written values (floats by bits, every NaN one value); value patterns include runs around the 7-bit boundaries of the run-length varint (128, 16384).",
   note="Trusted: the lab hook (feature verif) only wires the real builder/opener/iterators together. Iterator protocol as RowSetIterator uses it (batches <= fetch_hint). Fixed-width CHAR not reachable from SQL, not driven.", ref="6 C06"),
 "C07": dict(cat="exploration", tech="model-based runtime monitor with unique row ids + compactor trace events; thorough tier adds sanitizer overlays of the same workload (ASan), reports with risinglight frames are violations",
   text="Histories of insert/delete/compaction/reopen on tiny row-sets; after every step the table must equal a multiset model, DELETE counts must match, compaction passes (confirmed by the compactor's hook event) must not change any scan, primary-key tables must come back in key order.",
   note="Single session. Compaction driven by the engine's own timer on a paused clock. Key order observed through SELECT * (ordered merge scan).", ref="6 C07"),
 "C12": dict(cat="exploration", tech="metamorphic runtime monitor (q vs q ORDER BY K vs LIMIT/OFFSET slices; ORDER BY above joins of sorted inputs: sortedness + permutation) with an independent comparator",
   text="On tables built by several inserts/deletes/compactions over 4 disk layouts (and memory), ordered results must be K-sorted permutations of the unordered result, ordered LIMIT/OFFSET must equal the slice on K, unordered LIMIT/OFFSET must have the right count and be a sub-multiset.",
   note="Reference comparator NULL-smallest; ties may permute (slices compared on key columns).", ref="6 C12"),
 "C13": dict(cat="exploration", tech="differential runtime monitoring: key-range scan vs model filter vs unoptimized run; storage-level RowSetIterator(range) vs filter(scan); thorough tier adds sanitizer overlays of the same workload (ASan), reports with risinglight frames are violations",
   text="SQL leg: ranges of every bound kind on unique and duplicate keys of several types/positions with residuals and projections, compared with a Python model and the unoptimized statement; EXPLAIN only counts how many were pushed down. Storage leg: real RowSetIterator with KeyRange + start_rowid seek vs driver-side filtering of the written rows.",
   note="Storage leg drives the API as SecondaryTransaction::scan does (INT key = storage column 0, scanned first).", ref="6 C13"),
 "C18": dict(cat="fault_enumeration", tech="fault injection on files (bit flips, overwrites, truncations) + differential monitor against the pristine answers; thorough tier adds sanitizer overlays of the same workload (ASan), reports with risinglight frames are violations",
   text="Every sampled (thorough: every) single-bit flip, byte overwrite and truncation of every .col/.idx file of a CRC32 database is applied to a copy; the copy is opened in a fresh process, every table read 3 times, a compaction pass runs, tables are read again; each read must fail or return exactly the pristine rows and untouched tables must stay readable.",
   note="One fixed database shape (2 tables, 5 row-sets, 64-byte blocks), opened with a row-set target under which a compaction pass selects nothing and with one under which it merges every table (and reads the damaged row-set). Mutations of one file at a time. DV files and manifest belong to C04.", ref="6 C18"),
 "C20": dict(cat="exploration", tech="round-trip runtime monitor: COPY TO then COPY FROM, multiset comparison of typed cells",
   text="Random column type lists (12 types), contents with NULLs and delimiter/quote/newline characters, and CSV options; the re-imported table must equal the exported one.",
   note="Decimals compared by value. Empty strings, HEADER and DECIMAL values of a larger scale than declared only through the sentinels of their known findings.", ref="6 C20"),
 "C04": dict(cat="fault_enumeration", tech="crash-point enumeration through persistence hooks (directory snapshots + torn prefixes) with recovery in fresh processes vs a model, new statements and a second open of every recovered state; thorough tier adds sanitizer overlays of the same workload (ASan), reports with risinglight frames are violations",
   text="Every persistence step executed by a workload is a crash state (directory copy taken inside the hook), plus torn variants of the file/manifest record in flight; each is recovered by a fresh process and must equal model(acked) or model(acked+interrupted); the interrupted statement is retried, new statements must succeed, and crashes during the recovery itself must recover to the same state.",
   note="Process death only (no loss of un-fsynced page cache). The hook copies the directory on the only runtime thread; a file operation already handed to the blocking pool (a vacuum unlink) may complete during the copy, entries it removes are skipped (a crash state of that unlink). The torn-write base is the live manifest length reported by the hook and must start a record, else inconclusive.", ref="6 C04"),
 "C15": dict(cat="fault_enumeration", tech="fault injection at the per-operator output hook (error|panic at chunk k / end of stream) + differential against the fault-free run",
   text="For every operator of the executed plan (observed through the hook) errors and panics are injected at first/middle/last chunk and at end-of-stream, each in its own execution; the statement must fail, or return exactly the fault-free rows; failed INSERT..SELECT / DELETE must leave the target unchanged. Memory and disk engines, current- and multi-thread runtimes.",
   note="Not injected at the output of the INSERT/DELETE operator itself (post-commit). Benign = fired but result identical. Natural-fault leg (no hook): poison rows, bad CSV records, and COPY TO /dev/full (a sink that rejects every write).", ref="6 C15"),
 "C08": dict(cat="exploration", tech="schedule-perturbed concurrency runs (hook yield points, paused clock, directed gates) + boundary history oracle + online trace specification over version-manager events; thorough tier adds sanitizer overlays of the same workload (ASan + TSan), reports with risinglight frames are violations",
   text="Storage-level readers, SQL writers, drop table, and the engine's own compactor/vacuum share one database; the handler perturbs the schedule at 11 hook points. A reader's rows must equal the model for an admissible per-session prefix of writer statements; no reader may fail; a row-set may never be selected for vacuum while a pinned epoch contains it (checked on events emitted under the version manager's lock).",
   note="Current-thread runtime with paused clock: interleavings at hook points / existing awaits. Evidence reports distinct interleaving signatures and how many readers overlapped writes.", ref="6 C08"),
 "C09": dict(cat="exploration", tech="schedule-perturbed concurrency runs with an order-independent conservation oracle (unique ids: final = acked inserts - acked deletes); thorough tier adds sanitizer overlays of the same workload (ASan), reports with risinglight frames are violations",
   text="2-4 SQL clients insert unique ids and delete ids they saw acknowledged while compaction/vacuum passes run at perturbed / gated hook points inside Compactor::run and transaction start/commit; the final content (and the content after reopen) must be acked inserts minus acked deletes; failed statements must have no effect.",
   note="Conflict errors of DELETE vs compaction are unacknowledged statements. Current-thread + paused clock; long parking sleeps let whole compactor passes run inside a statement.", ref="6 C09"),
 "C10": dict(cat="exploration", tech="client-boundary history recording + offline serial-order search (DFS with memoisation) against a sequential model; legs: hook-perturbed / gated current-thread runtime, multi-thread stress, the real PostgreSQL-protocol server over TCP (own wire client, SIGKILL + reopen), DDL churn with a preemption hook in the binder; thorough tier adds sanitizer overlays of the same workload (ASan + TSan), reports with risinglight frames are violations",
   text="2-4 sessions with CREATE/DROP TABLE on colliding names, INSERT, DELETE by id and by predicate (overlapping between sessions), SELECT run concurrently on current-thread (perturbed, 40% with several row-sets, pauses, 3-4 compactor passes and one directed gate), multi-thread (2-16 workers) runtimes and through risinglight::server::run_server (one TCP connection per session); a checker searches for a serial order consistent with session order that reproduces every acknowledged result, explains every failure and yields the final state, which must also be there after reopen; panics and stuck sessions are violations.",
   note="Per-session order only. Search budget exhaustion is inconclusive. Multi-thread legs are stress. A history explained only by the weaker stale-delete-snapshot model is the open known finding; any other unexplained history is a violation.", ref="6 C10"),
 "C01": dict(cat="exploration", tech="differential runtime monitoring (optimizer on vs off on the live database) + single-rule translation checks executed on real data, rule attribution through the optimizer hook",
   text="Leg A: generated queries with PRAGMA enable/disable_optimizer on memory and disk layouts, real or mocked statistics; disagreements are attributed by bisecting the hook's rule deny-list. Leg B: each rewrite rule applied alone at single matches on a growing pool of plans (bound, optimized, previously validated rewrites), both sides executed by the real executor. Evidence names the rules fired, validated alone, and never reached.",
   note="Reference = unoptimized execution (no reference for subqueries in leg A). Non-executable intermediate forms are inconclusive. Derived-table select items are kept non-constant (known finding with sentinel).", ref="6 C01"),
 "C11": dict(cat="exploration", tech="differential runtime monitoring of hand-built physical plans through executor::build + independent Python nested-loop/group-by reference",
   text="For the same inputs, nested-loop / hash / merge join of every join type, simple / hash / sort aggregation and limit-over-order vs top-N are executed by the real executor on tables with chosen chunking, NULL and duplicate keys, INT vs BIGINT keys, empty sides; all implementations must agree with each other and with the reference.",
   note="Plans are built through the public Expr enum; hash/merge join of inner/outer type only with a true residual (executor contract). first/last are compared between agg and hashagg([]) only (same input order, no reference).", ref="6 C11"),
 "C14": dict(cat="exploration", tech="kernel-level runtime monitor against an independent scalar interpreter (arbitrary raw bits under NULL) + metamorphic row-isolation monitor over every array kernel (row in a batch vs the row alone) + optimizer on/off differential for constant folding + predicate leg vs a Python 3VL evaluator + filter-position monitor (WHERE e / WHERE NOT e vs the projected value of e); thorough tier adds sanitizer overlays of the same workload (ASan + Miri), reports with risinglight frames are violations",
   text="Array kernels (arithmetic, comparison, AND/OR/NOT, ||, unary minus, CASE selection, integer casts) over all accepted operand type combinations on batches of 0..200 rows with NULL slots carrying arbitrary raw bits are judged row by row against a scalar SQL interpreter; overflow must be an error, x/0 NULL, a row alone must equal the row in its batch. Constant expressions: folded (optimizer on) vs run-time (off).",
   note="NaN/inf not used in comparisons of the scalar-interpreter leg. LIKE / SUBSTRING / EXTRACT / REPLACE / REPEAT / casts other than integer ones / vector distances are decided by the row-isolation leg only (batch-independence, not absolute semantics). DATE +/- INTERVAL of one field is judged against an independent calendar model. A kernel error on a batch in which the model lets no row fail is a violation unless it is NoBinaryOp.", ref="6 C14"),
 "C19": dict(cat="exploration", tech="law-checking runtime monitor over value pools + cross-implementation coherence through SQL on both engines; thorough tier adds sanitizer overlays of the same workload (ASan + Miri), reports with risinglight frames are violations",
   text="Equality/order/hash laws over all pairs and triples of boundary+random pools of 13 types, comparison kernels vs DataValue::cmp, print->parse through the string cast and the CSV field parser; SQL leg: ORDER BY, <, join equality, GROUP BY, DISTINCT, MIN/MAX must induce the same relations on stored values on both engines.",
   note="Calendar values from SQL-reachable ranges, plus every value the type's own parser makes from ~95 literal texts beyond the pools (rejected texts denote no value). Cells compared as printed (decimals by value, -0.0 = 0.0).", ref="6 C19"),
 "C02": dict(cat="exploration", tech="differential runtime monitoring against an independent SQL implementation (SQLite) on the common dialect subset",
   text="Generated queries of the core relational subset over small-domain tables with NULLs and duplicates run on risinglight (memory / disk, optimizer on) and on SQLite with the same data; multisets (key sequences under ORDER BY) must agree. Disagreements are classified by re-running with the optimizer off and bisecting rules.",
   note="Only constructs where SQLite and the standard agree (see assumptions in the evidence). NOT IN subqueries only through the sentinel of their known finding. Failing/rejected statements are not wrong answers.", ref="6 C02"),
 "C16": dict(cat="exploration", tech="runtime type monitor (static plan types vs runtime array variants) + INSERT round-trip monitor with a value-equality oracle",
   text="Leg A: for executed queries the runtime array variant of every result column and every chunk width are compared with the static types the planner derives on the live catalog. Leg B: INSERTs with implicit conversions (VALUES, column subsets, INSERT..SELECT) into columns of 8 types on both engines are read back: declared variant, NULL only if nullable, value equal to the inserted one, otherwise the statement must have failed.",
   note="A rejected INSERT is always acceptable. Lossy float->integer and number->boolean conversions are known findings with sentinels. Temporal/binary types (TIMESTAMP, TIMESTAMPTZ, DATE, INTERVAL, BLOB) are driven through casts and INSERT..SELECT and judged by array variant only.", ref="6 C16"),
 "C17": dict(cat="exploration", tech="plan well-formedness monitor over the optimized RecExpr + build/execute under catch_unwind in a disposable runner; termination decided on the runner's own CPU time (300 CPU-seconds, load-independent)",
   text="Generated statements with every generator feature on are bound, optimized and inspected: no apply/in/exists/max1row left, consistent join key lists, residuals only where the executor allows, same output types as the bound plan, and building + running the plan must not panic; optimizer panics are violations, a watchdog is inconclusive.",
   note="The walker is the harness's own (not the repo's resolve_column_index). Execution errors (type, overflow) are not planning defects. A quarter of the cases add an extreme-statistics leg (row estimates 2e9..u32::MAX, costs overflowing to infinity around a derived table that holds a subquery), reported under signatures of its own.", ref="6 C17"),
}

def main():
    commits = subprocess.check_output(["git", "-C", "/repo", "log", "--format=%h %s"], text=True).splitlines()
    hook_commits = [l.split()[0] for l in commits if l.split(" ", 1)[1].startswith("verif:")]
    checks = []
    for p in props:
        pid = p["id"]
        if pid not in CHECKS:
            continue
        c = CHECKS[pid]
        checks.append({
            "property_id": pid,
            "quick_cmd": f"./check {pid} --tier quick",
            "thorough_cmd": f"./check {pid} --tier thorough",
            "evidence_file": f"/verif/evidence/{pid}.json",
            "replay_cmd_template": f"./check {pid} --replay {{path}}",
            "engine": "rlverif",
            "level_claimed": {"category": c["cat"], "text": c["text"], "design_ref": c["ref"]},
            "level_note": c["note"],
            "technique": c["tech"],
        })
    na = [{"property_id": p["id"], "reason": "check not built yet (build phase in progress); see DESIGN.md section 6"}
          for p in props if p["id"] not in CHECKS]
    m = {
        "version": 1,
        "setup_cmd": "cd /verif/harness && CARGO_NET_OFFLINE=true cargo build --release --offline",
        "hooks": {
            "guard": "cargo feature `verif` of the risinglight crate (off by default)",
            "enable": "the harness crate /verif/harness depends on risinglight by path (/repo) with features=[\"verif\"], default-features=false",
            "baseline_off_cmd": "cd /repo && cargo nextest run --workspace --no-fail-fast --offline --test-threads 8 || cargo test --workspace --no-fail-fast --offline",
            "source_commits": hook_commits[::-1],
            "add_only": True,
        },
        "engines": [{"name": "rlverif", "path": "/verif/harness", "serves_properties": sorted(CHECKS),
                     "kind_free_text": "Rust runner/driver binary `rlv` around the real crate with hooks + Python supervisor, generators, models and oracles (/verif/py)"}],
        "checks": checks,
        "not_applicable": na,
        "notes": "Family: runtime monitoring and sanitizers. Exit codes: 0 held on what was observed, 1 VIOLATION, 2 inconclusive (build failure / coverage floor missed).",
    }
    json.dump(m, open(os.path.join(HERE, "MANIFEST.json"), "w"), indent=1)

if __name__ == "__main__":
    main()
