#!/usr/bin/env python3
"""Prepares the brief and the scratch worktree of one mutation sub-agent.
usage: seedbrief.py <round-dir> <Cxx>   (creates <round-dir>/<Cxx>/{wt,target,out,BRIEF.md})
The brief holds the property text only (nothing of /verif's checks), the places earlier agents changed (so that another
place is chosen), and the working rules."""
import json, os, subprocess, sys
rd, prop = sys.argv[1], sys.argv[2]
HERE = os.path.dirname(os.path.dirname(os.path.abspath(__file__)))
P = {json.loads(l)["id"]: json.loads(l) for l in open(os.path.join(HERE, "properties.jsonl"))}[prop]
src = open(os.path.join(HERE, "tools", "seedtable.py")).read()
ns = {"__file__": os.path.join(HERE, "tools", "seedtable.py")}
exec(src.split("rows = []")[0], ns)
prev = [what for k, (p, what, needs) in sorted(ns["DESC"].items()) if p == prop]
d = os.path.join(rd, prop)
os.makedirs(os.path.join(d, "out"), exist_ok=True)
wt = os.path.join(d, "wt")
if not os.path.exists(wt):
    subprocess.check_call(["git", "-C", "/repo", "worktree", "add", "--detach", wt, "HEAD"], stdout=subprocess.DEVNULL, stderr=subprocess.DEVNULL)
tgt = os.path.join(d, "target")
if not os.path.exists(tgt) and os.path.exists(os.path.join(rd, "base-target")):
    subprocess.check_call(["cp", "-a", "--reflink=auto", os.path.join(rd, "base-target"), tgt])
brief = f"""# Task: seed one subtle property-breaking change into risinglight

You are working on a scratch git worktree of the Rust project risinglight (an educational OLAP SQL database:
binder, egg-based optimizer, vectorized executor, in-memory and columnar on-disk storage).

* Your worktree: `{wt}` (detached HEAD; edit files there and nowhere else).
* Build output directory (pre-populated with a debug build of this commit, so builds are incremental):
  always `export CARGO_TARGET_DIR={tgt} CARGO_NET_OFFLINE=true` first. The machine is offline: nothing can be fetched.
* Deliver into `{d}/out/`.
* Do NOT read, list or write anything under `/verif` or `/repo`, and do not touch other directories under `{rd}`.
  Do not create further worktrees or target directories (disk is limited).

## The property (this is all you are given)

**{P['id']}: {P['title']}**

Statement: {P['statement']}

Quantifier: {P['quantifier']['text']}

Why the existing tests cannot settle it: {P['why_tests_cant']}

Code the property is anchored in: {', '.join(P['anchors']['files'])}

Mechanisms: {json.dumps(P['anchors'].get('mechanism', []), ensure_ascii=False)}

## What to produce

A **small, plausible source change to risinglight (files under `src/`) that makes the property false** — the kind of change a
developer could make as a refactoring, optimisation, simplification or "fix" and get through review — such that

1. the crate still compiles, and the **existing test suite still passes** with the change:
   `cd {wt} && cargo nextest run --workspace --no-fail-fast --test-threads 6 --offline`
   (211 tests; takes several minutes; `sqlplannertest tpch` is load-sensitive — if only that one fails, re-run it alone);
2. the breakage **needs something specific to manifest** — a particular interleaving, a crash or fault at a particular point, a
   multi-step sequence of operations, an unusual input or layout, specific statistics, or two cooperating sites that each look fine
   alone. Ordinary use (the kind of statements the .slt tests under `tests/sql` run) must NOT expose it at once;
3. you have a **demonstration**: a Rust integration test `demo.rs` (to be placed at `tests/seeded_demo.rs` of the worktree; use the
   public API, e.g. `risinglight::Database::new_in_memory()` / `new_on_disk(SecondaryStorageOptions …)` and `db.run(sql).await`,
   `#[tokio::test]`) that **fails with your change and passes without it**. Run it both ways
   (`cargo test --offline --test seeded_demo`, with the change; `git stash` / `git stash pop` or `git diff > p; git checkout -- src`
   to run it without). It must be deterministic (or fail in at least 9 of 10 runs with the change) and never fail without it.

Rules for the change:
* touch only non-test code under `src/`; do not edit, delete or add tests, `.slt` files or planner test expectations; do not touch
  anything inside `#[cfg(feature = "verif")]` blocks or `src/verif.rs` / `verif_lab.rs` (instrumentation, off by default);
* no `if input == special_value` backdoors, no randomness, no environment checks: it must be an honest-looking logic change;
* keep it small (typically 1–25 changed lines; two cooperating sites are welcome);
* choose a **different place and mechanism** from the changes earlier people already made for this property:
{chr(10).join('  - ' + w for w in prev)}

Read the anchored code first, find a place where correctness rests on a subtle condition (an off-by-one, a boundary, an ordering of
two steps, a NULL / empty / duplicate / overflow case, a lock scope, a flag that is only needed in rare layouts), and break that.
While reading, if you notice that the **unchanged** code already violates the property for some input, write that down too
(notes.md, section "Observed on the unchanged tree") — with the concrete input.

## Deliverables in `{d}/out/`

* `patch.diff` — `git diff` of your change against the worktree's HEAD (only `src/` files);
* `demo.rs` — the demonstration test;
* `notes.md` — what the change is, why it breaks the property, exactly what is needed for it to manifest, why the existing tests do
  not see it, what you ran (commands + outcome: suite with the change, demo with and without), and anything observed on the
  unchanged tree.

Leave the worktree with your change **reverted** (`git checkout -- . && git status` clean, `tests/seeded_demo.rs` removed) when done.
Your final message: a five-line summary (file/function changed, trigger, suite result, demo result with/without).
"""
open(os.path.join(d, "BRIEF.md"), "w").write(brief)
print(os.path.join(d, "BRIEF.md"))
