#!/usr/bin/env python3
"""Promote stored replay witnesses to the regression corpus.

For every replays/<prop>/*.json: run `./check <prop> --replay <file>` on the current tree.
  exit 0  -> the witness no longer shows a violation (the defect was repaired, the seeded change was
             reverted, or the oracle's false alarm was corrected): copy to findings/regress/<prop>-<name>.json
  exit !=0 -> still reproduces: listed (it must be an open known finding; anything else is reported here)
usage: harvest.py [props...]      (run with VERIF_NO_BUILD=1 after building the harness)"""
import glob
import json
import os
import shutil
import subprocess
import sys
from concurrent.futures import ThreadPoolExecutor

VERIF = os.path.dirname(os.path.dirname(os.path.abspath(__file__)))


def one(path):
    prop = os.path.basename(os.path.dirname(path))
    env = dict(os.environ, VERIF_NO_BUILD="1")
    try:
        p = subprocess.run([os.path.join(VERIF, "check"), prop, "--replay", path], env=env, stdout=subprocess.PIPE,
                           stderr=subprocess.STDOUT, text=True, timeout=900)
        return path, p.returncode, p.stdout[-300:]
    except subprocess.TimeoutExpired:
        return path, -1, "timeout"


def main():
    props = [a.upper() for a in sys.argv[1:]] or sorted(os.path.basename(d) for d in glob.glob(os.path.join(VERIF, "replays", "C*")))
    paths = []
    for p in props:
        paths += sorted(glob.glob(os.path.join(VERIF, "replays", p, "*.json")))
    known = {(k["property"], k["signature"]) for k in json.load(open(os.path.join(VERIF, "known_findings.json")))["open"]}
    os.makedirs(os.path.join(VERIF, "findings", "regress"), exist_ok=True)
    kept = still = 0
    with ThreadPoolExecutor(8) as ex:
        for path, rc, out in ex.map(one, paths):
            prop = os.path.basename(os.path.dirname(path))
            w = json.load(open(path))
            if rc == 0:
                dst = os.path.join(VERIF, "findings", "regress", f"{prop}-{os.path.basename(path)}")
                shutil.copy(path, dst)
                kept += 1
            else:
                still += 1
                tag = "known" if (prop, w.get("signature")) in known else "NOT-KNOWN"
                print(f"still reproduces rc={rc} [{tag}] {prop} {w.get('signature')} {os.path.basename(path)} {out[-160:]!r}")
    print(f"promoted {kept}, still reproducing {still}")


main()
