#!/usr/bin/env python3
"""Builds the seeded-changes table of DESIGN.md (section 10) and seeded/<id>/meta.json from the
recorded results (seeded/<id>/result_*.txt written by tools/seedrun.sh)."""
import json, os, re, glob
HERE = os.path.dirname(os.path.dirname(os.path.abspath(__file__)))
DESC = {
 "S01": ("C09", "reverse of the W1/W2 repairs: DELETE / compaction work from a snapshot older than the table lock", "a compaction of the table between a DELETE's snapshot pin and its commit (or vice versa)"),
 "S02": ("C01", "new rewrite `and-ge-le-conflict` folds `x >= a AND x <= b` to false when a >= b (wrong for a == b)", "inclusive bounds with equal constants (`x BETWEEN 2 AND 2`) and a row with that value"),
 "S03": ("C01", "new rule turns `filter c (left outer join)` into an inner join with c pushed to the right side without checking that c rejects NULLs", "LEFT JOIN + WHERE right-side predicate that accepts NULL padding (`b.k IS NULL`)"),
 "S04": ("C04", "manifest replay applies buffered entries of a transaction whose End marker is missing", "crash tearing the manifest append of a multi-entry transaction between two entries"),
 "S05": ("C04", "boot vacuum keeps row-set directories whose id was 'not yet issued'", "crash between row-set mkdir and manifest append, then INSERT into the same table"),
 "S06": ("C06", "RLE varint writer uses `> 0x80` instead of `>= 0x80`", "a run of exactly 128 / 16384.. equal values inside one block"),
 "S07": ("C06", "column iterator `skip` reuses the first block's row count for every block it walks over", "blocks with different row counts and two block-crossing skips without a read in between"),
 "S08": ("C08", "pending row-set deletions are filed under the epoch before the commit", "reader pinned at P, compaction/DROP committing P+1, third party unpin waking the vacuum"),
 "S09": ("C08", "DeleteDV entries drop the in-memory delete vector at commit time", "reader pinned while a DV is live; compaction or DROP commits before the reader fetches that DV"),
 "S10": ("C11", "merge join flushes key groups at every input chunk boundary", "duplicate-key run straddling row 1024 of a sorted input, with a match on the other side"),
 "S11": ("C11", "hash join skips build-side rows with a NULL key", "LEFT/FULL OUTER hash join with a NULL key on the left side"),
 "S12": ("C13", "range scan ends the row-set when a batch has no row in range (also true below the lower bound)", "lower bound behind the first 2048-row batch of the start block, or in a key gap between blocks"),
 "S13": ("C13", "row-set pruning by upper bound treats `<=` like `<`", "inclusive upper bound equal to the smallest key of a row-set"),
 "S14": ("C15", "hash semi/anti join treats an error of its build side as end of input", "fault inside the subquery side of IN / NOT IN / EXISTS"),
 "S15": ("C15", "bulk INSERT on disk publishes full row-sets before commit", "INSERT whose input exceeds target_rowset_size before a fault in a later chunk"),
 "S16": ("C18", "block-type word moved out of the checksummed range (writer and reader agree)", "overwrite of the block-type byte of a nullable block with 0x00"),
 "S17": ("C18", "blocks enter the block cache before verification (verification after the cache loader)", "the corrupted block is requested twice in one process (second read, or compactor first)"),
 "S18": ("C03", "orphan check done eagerly while replaying AddRowSet/AddDV entries", "two reopen cycles (the compacted manifest lists row-sets before CreateTable entries)"),
 "S19": ("C03", "`advance_next_id` called after `add_table` with id+1", "CREATE VIEW/INDEX before a CREATE TABLE, then reopen"),
 "S20": ("C07", "key-range bitmap overwrites the delete-vector visibility map", "deleted row inside a batch cut by a pure key-range predicate"),
 "S21": ("C07", "compactor's table lock guard dropped at once (`.is_some()`)", "DELETE overlapping a compaction of the same table"),
 "S22": ("C09", "compactor's table lock guard is a temporary (`let Some(_) = … else`)", "DELETE starting after the compactor's try-lock and before its commit"),
 "S23": ("C09", "compaction emits DeleteRowSet for every row-set of its snapshot, not only the merged ones", "a row-set skipped by the compaction budget next to two selected ones"),
 "S24": ("C10", "DROP TABLE logs before it applies (existence check after the manifest write)", "two sessions dropping the same table concurrently, then reopen"),
 "S25": ("C10", "DELETE releases the table lock before its manifest commit", "compactor pass between DV write and commit of a DELETE"),
 "S26": ("C12", "disk scan skips the ordered merge unless every key column is requested", "`ORDER BY k` with k not in the select list, >= 2 row-sets with interleaving keys"),
 "S27": ("C12", "LIMIT executor stops counting batches wholly before the OFFSET", "unordered LIMIT/OFFSET with OFFSET >= size of the first chunk"),
 "S28": ("C14", "LIKE no longer clears raw bits under NULL", "NULL string, pattern matching '', result used as a filter"),
 "S29": ("C14", "SMALLINT arithmetic computed in i32 and truncated (`as i16`)", "SMALLINT op SMALLINT with a result outside the SMALLINT range"),
 "S30": ("C02", "hash join build skips rows with NULL keys (same site as S11, independently written)", "LEFT/FULL equi-join with a NULL left key"),
 "S31": ("C02", "LIMIT/OFFSET stops counting skipped batches (same site as S27, independently written)", "unordered LIMIT/OFFSET over several batches with OFFSET >= first batch"),
 "S32": ("C05", "disk memtable uses BTreeMap instead of BTreeMultiMap", "duplicate key values inside one INSERT into a column-level PRIMARY KEY table"),
 "S33": ("C05", "range scan early exit `start_row_id >= end_row_id` (same site as S12)", "lower-bounded range on an INT PRIMARY KEY with a whole batch before the begin key"),
 "S34": ("C16", "NOT NULL check moved in front of the cast/fill in INSERT", "INSERT with a column list that omits a NOT NULL column"),
 "S35": ("C16", "integer narrowing casts use `as` (wrap) instead of checked conversion", "out-of-range integer into a narrower integer column"),
 "S36": ("C17", "`in-to-exists` wraps the subquery's first output in `ref` only for aggregates", "IN / NOT IN over a subquery whose select item is a computed non-aggregate expression"),
 "S37": ("C17", "`analyze_aggs` stops at IN, dropping aggregates in its left operand", "aggregate only as the left operand of an IN list"),
 "S38": ("C19", "DOUBLE comparison kernels compare raw f64 instead of the total order", "NaN in a DOUBLE column compared by the kernel"),
 "S39": ("C19", "`Interval::hours()` gains `% 24` (Display only)", "interval with an hour part of 24 or more"),
 "S40": ("C20", "COPY TO decides NULL by the display text \"NULL\"", "a VARCHAR value that is exactly 'NULL'"),
 "S41": ("C20", "COPY TO no longer truncates the export file", "export to a path that already holds a longer file"),
 "S42": ("C03", "a compaction whose output is empty no longer emits DeleteDV for the replaced row-sets", "table with >= 2 row-sets emptied by DELETE, compacted to nothing, two reopen cycles without a statement (row-set ids restart), then INSERT: the stale delete vector hides the new rows"),
 "S43": ("C04", "opening a database without committed tables appends to the manifest instead of rewriting it", "crash tearing the manifest append of the very first statement, a successful recovery, then one more open (the torn record is now mid-file)"),
 "S44": ("C08", "the vacuum horizon is the newest pinned epoch instead of the oldest", "reader pinned at E, compaction/DROP at E+1, a second transaction pinned later, then a vacuum pass"),
 "S45": ("C09", "DELETE releases the per-table lock after writing the delete vectors, before the manifest commit", "a compactor pass reaching the table between 'DVs written' and 'epoch published'"),
 "S46": ("C10", "the compactor pins its snapshot once per pass instead of under each table's lock", "a DELETE (or DROP) committing after the pass started and before the compactor locks that table"),
 "S47": ("C07", "compaction emits DeleteDV for every row-set of the table, not only the merged ones", "a compaction that selects a strict subset of the row-sets while a skipped row-set carries a delete vector"),
 "S48": ("C01", "`merge-join` / `sort-agg` accept inputs ordered descending on the key (`is_clustered_by`)", "equi-join of two derived tables sorted DESC on the join key, with different key sets"),
 "S49": ("C13", "`start_rowid` binary-searches the block index (`partition_point`) instead of walking it", "duplicate keys whose run straddles a block boundary, inclusive lower bound equal to that key"),
 "S50": ("C15", "an operator's Err item is sent with `try_broadcast` (dropped when the channel is full)", "an error raised when the consumer is >= 16 chunks behind"),
 "S51": ("C18", "short-read loop zero-fills a block past EOF; the checksum type is read from the (zero) footer", "a .col file truncated at a block boundary (or to 0 bytes)"),
 "S53": ("C02", "`can_filter_left_input` also accepts anti joins: a left-only conjunct of an anti join condition becomes a filter on the left input", "NOT EXISTS whose condition has a top-level conjunct over outer columns only, and an outer row failing it"),
 "S54": ("C05", "merge-iterator sift-down stops as soon as the element is <= its left child", ">= 3 row-sets of a primary-key table with overlapping key ranges"),
 "S55": ("C06", "RLE nullable VARCHAR blocks size the inner blob iterator by row count instead of run count", "nullable VARCHAR column, run-length encoding, a run longer than one row"),
 "S56": ("C11", "nested-loop semi/anti join: `exists = …` instead of `exists |= …` over the right input's chunks", "ANTI join run by the nested-loop implementation, right input in >= 2 chunks, a match only in an earlier chunk"),
 "S57": ("C12", "merge-iterator sift-down never compares a right child in the last heap slot", ">= 3 live row-sets of a primary-key table with overlapping key ranges"),
 "S58": ("C14", "AND kernel 'no-NULL fast path' guarded by `||` instead of `&&`", "one AND operand NULL-free over the batch, the other NULL on a row where the first is FALSE"),
 "S59": ("C16", "PRIMARY KEY implies NOT NULL only for the column option, not for the table constraint `PRIMARY KEY (a, b)`", "key declared by table constraint without NOT NULL, NULL written into a key column"),
 "S60": ("C17", "`hash-join-on-one-eq` accepts a key that depends on its own side instead of rejecting keys that depend on the other side", "join whose whole condition is one equality with one side mixing columns of both inputs (`a = c + b`)"),
 "S61": ("C19", "`normalize_join_key` turns integer keys into DOUBLE", "equi-join / IN subquery on BIGINT values above 2^53 that round to the same double"),
 "S62": ("C20", "COPY FROM trims every field before the NULL test and before storing it", "a text value that starts or ends with white space, or is white space only"),
 "S63": ("C01", "disk scan merges row-sets in key order only when the first key column is among the requested columns", "ORDER BY the key of a keyed disk table without selecting it, >= 2 overlapping row-sets (sort elimination + column pruning meet)"),
 "S64": ("C02", "merge join: `lkey < rkey` instead of `<=` in the advance-left arm", "merge join with a NULL-containing key on both sides whose non-NULL parts are equal: the join ends there"),
 "S65": ("C03", "CREATE TABLE checks for an existing name before taking the DDL lock", "two sessions creating the same name concurrently (second manifest entry stays), then shutdown + reopen"),
 "S66": ("C04", "manifest replay tolerates a truncated tail only inside a transaction (`e.is_eof() && begin`)", "crash leaving 1-6 bytes of the `\"Begin\"` marker of a manifest append"),
 "S67": ("C07", "delete-vector id generator restored with `fetch_max(id)` instead of `id + 1` at open", "DELETE, reopen, then a DELETE touching another row-set of the same table: both row-sets resolve to the new vector"),
 "S68": ("C08", "a commit moves the content out of the latest snapshot when its Arc is unshared instead of cloning it", "reader pinning the old epoch while an overlapping writer's commit is between manifest write and publish"),
 "S69": ("C09", "the compactor pins its snapshot once per pass (same idea as S46, written independently)", "DELETE committing between the pass-level pin and the compactor's lock on that table"),
 "S70": ("C10", "CREATE TABLE reads a copy of the schema catalog before waiting for the DDL lock", "two concurrent CREATE TABLE of one name: the refused one leaves a manifest record; reopen fails"),
 "S71": ("C15", "merge join reads its inputs with `while let Some(Ok(..))`: an Err item ends the stream", "error or panic in an input of a merge join (disk key join or sorted derived tables)"),
 "S72": ("C17", "`merge-join` rule matches every hash join with a true residual, also semi/anti", "semi/anti join on the leading key columns of two keyed disk tables large enough for a hash join"),
 "S73": ("C05", "compaction emits DeleteDV for every row-set of its snapshot, not only the merged ones (same idea as S47, written independently)", "a row-set skipped by the compaction budget that carries a delete vector, next to selected ones"),
 "S74": ("C06", "the fixed-width INTERVAL encoder writes `months() % 12` instead of the raw month field", "an INTERVAL value of 12 or more months stored in a disk column"),
 "S75": ("C11", "the top-N heap bound (not only its first allocation) is capped at the 1024-row processing window", "ORDER BY … LIMIT/OFFSET with limit + offset above 1024"),
 "S76": ("C12", "new rule `useless-order-after-primary-key` drops an ORDER BY whose first key is the (non-unique) primary key the scan is ordered by", "duplicate primary-key values and a second sort key (`ORDER BY pk, x`), also under LIMIT/OFFSET"),
 "S77": ("C13", "key-range push-down accepts a primary key that is not stored first (the seek walks the block index of storage column 0)", "PRIMARY KEY on a column other than the first, several blocks, a lower bound on the key"),
 "S78": ("C14", "the zero-divisor mask of `/` and `%` is indexed by the position among the non-NULL divisors", "a divisor batch with a NULL in an earlier row than a zero"),
 "S79": ("C16", "DOUBLE (op) DECIMAL arithmetic returns a DOUBLE array while the type checker still derives DECIMAL", "arithmetic mixing a DOUBLE and a DECIMAL operand, result inserted / compared / cast as DECIMAL"),
 "S80": ("C18", "a per-block 'verified once' flag is claimed before the checksum is checked", "a corrupted block read a second time after the first read failed (retry, second query, compactor)"),
 "S81": ("C19", "merge-iterator sift-down never considers the last heap slot as a right child (same site as S57, written independently)", "an odd number (>= 3) of overlapping row-sets of a primary-key table"),
 "S82": ("C20", "COPY FROM skips records whose fields are all empty", "a row whose exported columns are all NULL (or a single NULL column)"),
 "S83": ("C01", "new rule `limit-scan` drops a LIMIT above a table scan whenever the *estimated* row count fits the limit", "LIMIT directly above a scan (no ORDER BY, or ORDER BY eliminated) with estimate <= LIMIT < actual rows: mocked / stale statistics, or a key-range predicate on disk"),
 "S84": ("C03", "manifest replay at open no longer carries DropTable entries into the compacted manifest it rewrites", "an acknowledged DROP TABLE followed by two reopen cycles (the table is back; with the name re-used the open fails)"),
 "S85": ("C04", "same change as S84, written independently for C04", "DROP TABLE, a recovery, then a second recovery / open"),
 "S86": ("C08", "the never-read `_pin_version` field of `SecondaryTransaction` is removed: the pin guard drops when `start()` returns", "a reader overlapping a compaction / DROP commit and a vacuum pass"),
 "S87": ("C15", "COPY FROM reader errors travel through the channel; the reader thread is no longer joined, so a reader *panic* just closes the channel", "a CSV record that makes the reader thread panic (non-ASCII text in a BLOB field) after some chunks were already read"),
 "S88": ("C02", "top-N skips an incoming row once the heap is full unless it is strictly smaller than the worst kept row on the *first* key only", "ORDER BY k1, k2 LIMIT n with ties on k1 at the cut-off, the better row arriving later"),
 "S89": ("C07", "the handlers of one DELETE are split per row-set with `chunk_by` (consecutive runs) collected into a HashMap: only the last run of a row-set survives", "primary-key table, >= 2 row-sets with interleaving keys, one DELETE covering rows of both"),
 "S90": ("C09", "`try_lock_for_compaction` locks a fresh, unregistered mutex when the table has no lock-map entry yet", "the first DELETE on a table since open, started while the compactor is inside that table's compaction"),
 "S91": ("C10", "orphan row-sets / delete vectors are checked while the manifest is replayed instead of after it (same site as S18)", "an INSERT whose commit is between manifest append and publication when a DROP TABLE of the same table pins its snapshot; shutdown + reopen"),
 "S92": ("C01", "constant analysis folds `col IS NULL` to false for a column declared NOT NULL / PRIMARY KEY", "IS [NOT] NULL over such a column on the NULL-padded side of an outer join with an unmatched row (the anti-join idiom)"),
 "S93": ("C03", "bootstrap restores the next row-set / delete-vector id from the highest table's highest id instead of the global maximum", ">= 2 tables where the newest row-set belongs to a table other than the highest-id one, then reopen and INSERT / DELETE"),
 "S94": ("C04", "the boot-time vacuum of orphan delete-vector files runs only when the manifest holds a live delete vector", "a DELETE dying between its DV file and its manifest record while no DV is live; the retry is issued the same DV id"),
 "S95": ("C06", "a nullable VARCHAR column opens a non-nullable block when the chunk being appended has no NULL", "a block opened by a NULL-free chunk and continued by a chunk with NULLs (several chunks per row-set)"),
 "S96": ("C08", "per-epoch pin reference counts become a set: the first unpin releases the epoch for every holder", "two pins on one epoch (a second reader, or the compactor), one of them dropped after a row-set deletion committed"),
 "S97": ("C10", "the per-table lock is keyed by (table, deletion | compaction): DELETE / DROP and compaction no longer exclude each other", "a DELETE pinning before a compaction of its table commits and committing after it"),
 "S98": ("C13", "an exclusive INT lower bound `k > v` is pushed as `k >= v.saturating_add(1)`", "a strict lower bound at 2147483647 on an INT key with a live row k = i32::MAX"),
 "S99": ("C14", "DOUBLE -> integer casts check the range in floating point (`T::MAX as f64` rounds up) and then saturate", "CAST of exactly 2^63 to BIGINT"),
 "S100": ("C17", "`name_of` returns `Ref(id)` without canonicalising the e-class id", "a derived table with two select items a rewrite proves equal (a + a, a * 2), one of them used by a third, pruned through two push-down levels"),
 "S101": ("C18", "the index decode loop stops at the block count of the (unchecksummed) footer", "a corrupted block count in an .idx footer that is smaller than the real one, on a column of >= 2 blocks"),
 "S102": ("C20", "the CSV reader of COPY FROM gets a comment character `#`", "a first-column text cell starting with `#` that needs no quoting"),
 "S103": ("C11", "join keys of different numeric types are cast only when every key pair needs a cast (`all` became `any` in the early return)", "a composite equi-join key with one same-typed pair and one INT = DECIMAL pair, run as hash / merge join"),
 "S104": ("C16", "the common type of VALUES rows is computed against the first row instead of the accumulated type", "INSERT ... VALUES of >= 3 rows where a middle row widens a column and a later row widens it less"),
 "S105": ("C19", "INTERVAL ordering compares the normalised length while equality and hash stay field-wise", "two intervals with different fields and equal length (1 month vs 30 days)"),
 "S106": ("C02", "the nested-loop join returns early when its left input is empty", "RIGHT / FULL join with a non-equi condition and an empty left input"),
 "S107": ("C05", "the column iterator's fetch hint is taken from the current block iterator, also after a skip that deferred loading the next block", "a delete vector covering whole blocks so that a skipped batch ends on a block boundary before a shorter last block"),
 "S108": ("C12", "top-N skips incoming rows by a per-chunk bound taken once the heap holds `limit` rows (not `offset + limit`)", "ORDER BY ... LIMIT n OFFSET m > 0 over >= 2 input chunks with between n and m+n-1 rows seen at a chunk boundary"),
 "S109": ("C15", "a per-statement fail-fast flag: an operator that produces a chunk after any operator failed returns silently", "an error in a non-root operator after data has reached an ancestor (chunk k >= 1): the ancestor's channel closes like end of input"),
 "S110": ("C09", "DELETE checks a row handler's row-set against the version manager's object pool instead of its own snapshot", "a DELETE pinned before a compaction of its table commits, the lock taken afterwards, while an older snapshot keeps the replaced row-sets alive"),
 "S111": ("C07", "the delete-vector offset of a batch comes from a cursor that is not advanced when a wholly deleted batch is skipped", "a row-set read in more than one batch with one complete batch deleted and rows surviving behind it"),
 "S52": ("C10", "reverse of repair db497b9: the binder fetches the table by id with unwrap() after resolving its name", "DROP TABLE by another session between the binder's two catalog lookups (multi-thread runtime)"),
 "S112": ("C05", "`DiskRowset::start_rowid` becomes a binary search for the last block whose first key is <= the begin key (was: strictly <)", "an INT key with a run of equal values that ends one block and starts the next, and a pushed-down range whose inclusive start is that value"),
 "S113": ("C11", "sort aggregation never continues a group whose key contains NULL ('as the merge join does')", "a plan with SortAgg and at least two rows with a NULL grouping key"),
 "S114": ("C18", "the compactor logs and skips a row-set whose iterator cannot be created, and the unchanged commit code still deletes every selected row-set", "damage in the first block of a column file of one of several row-sets, then a compaction pass that selects them: the first read fails, later reads return Ok without that row-set's rows"),
 "S115": ("C12", "a 'sorted bulk load' fast path sends a key-ordered chunk straight to the row-set builder while the memtable is empty", "one INSERT / COPY of more than 1024 rows into a keyed disk table whose first chunk is in key order and a later chunk holds smaller keys"),
 "S116": ("C19", "TIMESTAMP / TIMESTAMPTZ literals accept fractional seconds (`%S%.f`) while Display still prints milliseconds", "a literal with 4-6 fractional digits: it prints like another value and does not read back as itself"),
 "S117": ("C17", "`optimize_stage` keeps the previous plan when the extracted plan's cost is not finite (also for the stage that lowers subqueries)", "row estimates so large that the root cost overflows f32, and a subquery anywhere in the statement"),
 "S118": ("C16", "casts between TIMESTAMP and TIMESTAMPTZ return the array unchanged ('same i64 representation')", "a non-string TIMESTAMP value converted to TIMESTAMPTZ or back (CAST, INSERT ... SELECT)"),
 "S119": ("C20", "COPY TO computes its per-column 'has NULLs' flags from the first chunk only", "an export of several chunks with a NULL in a column whose first chunk has none"),
 "S120": ("C14", "`Date + Interval`: the month wrap-around is rewritten with rem_euclid/div_euclid and the day-of-month clamp uses the year *before* the month carry", "a month interval that carries into the neighbouring year, target month February, day 29 or later, leap status differing across the carry (2019-12-31 + 2 months = 2020-02-28); folding gives the same wrong value"),
 "S121": ("C15", "COPY TO no longer flushes after each chunk; the last buffer is written when the csv writer is dropped, which discards I/O errors", "an output whose write fails only at the final flush (whole output below 8 KiB, e.g. `copy t to '/dev/full'`): Ok with nothing written"),
 "S122": ("C07", "the merge iterator's heap sift-down stops when the new root is <= its left child, without looking at the right child", "a keyed disk table with three or more live row-sets whose keys interleave; the ordered scan (and the compacted row-set) come out of order, range reads then lose rows"),
 "S123": ("C06", "the plain blob/string block iterator caches the next value's start offset and `skip(cnt)` refreshes it from `offsets[cnt-1]` instead of `offsets[next_row-1]`", "a skip after the iterator has already moved inside one block (read-then-skip, skip-then-skip): the next value is the concatenation of the skipped ones"),
 "S124": ("C08", "the version manager remembers dropped tables and lets the vacuum apply a deletion list whose row-sets all belong to a dropped table regardless of pinned epochs", "a reader pinned on T, another commit, then DROP TABLE T: the row-set directory is unlinked while the pinned snapshot contains it"),
 "S125": ("C13", "`analyze_range` merges two key bounds on the same side instead of giving up, and the end side reuses the start side's comparison (keeps the looser upper bound)", "an equality and a looser upper bound on the INT key (`k = 5 AND k < 8`) with keys in between"),
 "S126": ("C04", "`dv/` is created only when the database directory itself had to be created", "a crash during the very first open between mkdir <db> and mkdir <db>/dv: every later open fails in the boot-time DV vacuum"),
 "S127": ("C03", "the boot-time scan that removes unreferenced row-set directories runs only if the replay saw a DeleteRowSet or dropped an orphan", "an INSERT of more than 1024 rows failing in a later chunk (unlogged directory left behind), clean shutdown, reopen, INSERT into the same table: AlreadyExists"),
}
STRENGTHENED = {
 "S120": "missed by the first C14 (DATE +/- INTERVAL was judged by row isolation and fold-vs-run only, both of which agree with a kernel that is wrong in itself); caught after the calendar leg (an independent model of month / year / day arithmetic with month ends of leap and ordinary years and year carries drawn on purpose)",
 "S121": "missed by the first C15 (faults were injected between operators or came from poison rows; no sink ever failed); caught after the natural-fault leg copies to `/dev/full` (outputs below and above the writer's buffer)",
 "S127": "not run against the first C03, which had no failing multi-chunk INSERT in its histories and could not have seen it: the failed-bulk-insert episode (INSERT of 1030-2060 rows with a NULL for a NOT NULL column behind them, reopen, INSERT, check) was added after reading the agent's summary, then the change was run",
 "S112": "missed by the first C05 (keys were rarely duplicated inside one row-set and never probed value by value; C13 caught it); caught after the key-range probes and the table with long runs of equal INT keys were added",
 "S114": "missed by the first C18 and by C09 (with the 600-byte row-set target of C18's layout a compaction pass selects nothing, so the pass after the reads was a no-op); caught after the same damaged files are also opened with a large row-set target, where the pass merges the table's row-sets",
 "S115": "missed by the first C12 and by C05 (no INSERT had more than 60 rows, so none reached storage in two chunks); caught after a third of the keyed tables get one INSERT of 1030-2100 rows whose first 1024 keys ascend and whose later keys are smaller",
 "S116": "missed by the first C19 (its timestamps were whole seconds, the only values the unchanged parser can make); caught after literal texts beyond the pools (fractions of a second, exponents, unusual units) are parsed by the type itself and every accepted one joins the pool",
 "S117": "missed by the first C17 / C01 (mocked row estimates ended at 100 000); caught after the extreme-statistics leg (estimates of 2e9..u32::MAX around a derived table holding the subquery). That leg first found a defect of the unchanged tree (NaN cost panics egg's extractor, repaired in c3dede1)",
 "S118": "missed by the first C16 / C14 (neither drove TIMESTAMP / TIMESTAMPTZ / INTERVAL / BLOB columns through casts or INSERT ... SELECT); caught after the temporal leg (casts between every pair of those types and inserts that need them, judged by runtime variant vs derived / declared type)",
 "S102": "missed by the first C20 (no text cell started with a character another CSV dialect gives a meaning); caught after `#`, backslash, BOM, `=1+1` ... were added to the string pool",
 "S83": "missed by the first C01 (LIMIT directly above a plain scan was almost never generated; C12 caught it); caught after the `bare_scan` shape (LIMIT / ORDER BY above a plain column scan, limits around the real row count, mocked statistics) was added",
 "S91": "missed by the first C10; caught after DDL/DML race gates were added to the current-thread leg",
 "S92": "missed by the first C01 (C02 caught it); caught after the `outer_notnull_test` shape (IS [NOT] NULL over a NOT NULL / PRIMARY KEY column above an outer join) was added",
 "S98": "missed by the first C13 (keys were drawn from -20..300); caught after the ends of the key type's range and their neighbours were added to keys and bounds",
 "S99": "missed by the first C14 (casts to integers were modelled from integers only); caught after the scalar model covers DOUBLE / DECIMAL sources and the double pool holds the ends of the integer ranges (2^15, 2^31, 2^63 and neighbours)",
 "S100": "missed by the first C17 / C01; caught after the `derived_twins` shape (a derived table whose select items are one expression after a rewrite, one of them used by a third item) was added",
 "S76": "missed by the first C12 (key values were unique by construction); caught after a third of the keyed tables hold duplicate key values and ORDER BY lists the key first, then another column",
 "S79": "missed by the first C16 / C14 (generated arithmetic was integer-typed, the DOUBLE x DECIMAL pair is not modelled by C14's scalar interpreter); caught after every fourth statement of leg A is built from columns of every numeric type (+ - * / %, CASE, CAST, aggregates)",
 "S87": "needed the natural-fault leg of C15 (statements whose own operators fail on a poison row / a bad CSV record at row k; the hook-injected faults sit in the operators' output loops and cannot reach a helper thread)",
 "S53": "missed by the first C02 / C01 (extra conjuncts of EXISTS subqueries referred to the inner table only); caught after EXISTS / NOT EXISTS conditions may carry conjuncts over the outer row only or over both",
 "S59": "missed by the first C16 (its INSERT leg declared no primary keys at all); caught after tables get column-option and table-constraint (also composite) primary keys",
 "S60": "needed the `join_mixed_key` shape (whole ON condition = one equality with a side mixing both inputs) in the generator",
 "S61": "missed by the first C19 (no two BIGINT values above 2^53 that round to the same double); caught after such neighbours were added to the pool and `a IN (SELECT a …)` to the coherence queries",
 "S36": "not caught until the pruning defect behind the open column-not-found finding was repaired (5f490d5, b6fa5f4) and the signature split: a column-not-found panic under an *unresolved* subquery form is a consequence of that form, one after a *successful* unnesting is its own class (`…:unnested-subquery`)",
 "S42": "missed by the first C03 (every reopen was followed by an INSERT, tables were rarely emptied; C07 caught it); caught after the empty-out episode (several row-sets, DELETE all, compaction passes, two silent reopens, INSERT, check) was added",
 "S43": "missed by the first C04 (a recovered state was probed with new statements but never opened a second time); caught after every recovered state is shut down and opened again",
 "S46": "missed by the first C10 (1-2 compactor passes, no gates; C09 caught it); caught after the compaction-heavy variant of the current-thread leg (several row-sets, pauses, 3-4 passes, one directed gate) was added",
 "S48": "missed by the first C01 / C02 (derived tables were never sorted without LIMIT and never on both sides of a join); caught after the `sorted_join` shape was added to the generator",
 "S06": "missed by the first C06 (runs were 1..40 long); caught after the `longruns` pattern (runs of 127/128/129/…/16385) was added",
 "S15": "missed by the first C15 (one disk layout with a 1 MB row-set budget); caught after the disk cases use tiny row-set budgets too",
 "S20": "missed by the first C07 (full scans only; C13 caught it); caught by C07 after key-range reads and range counts were added to its per-step checks",
 "S26": "missed by the first C12 (sort keys were always projected); caught after `ORDER BY <unprojected key>` vs the same query with the key projected was added",
 "S28": "missed by the first C14 (LIKE not driven, projections only); caught after the predicate leg (boolean expression in projection / WHERE / NOT WHERE position vs a Python 3VL evaluator) was added",
}
rows = []
for d in sorted(glob.glob(os.path.join(HERE, "seeded", "S*")), key=lambda p: int(re.match(r"S(\d+)", os.path.basename(p)).group(1))):
    sid = os.path.basename(d).split("-")[0]
    prop, what, needs = DESC[sid]
    results = []
    caught, missed = [], []
    for f in sorted(glob.glob(os.path.join(d, "result_*.txt"))):
        tier = os.path.basename(f)[7:-4]
        txt = open(f).read()
        for m in re.finditer(r"^(C\d\d) (\w+) seed=(\d+): exit=(\d+)", txt, re.M):
            c, t, seed, rc = m.group(1), m.group(2), m.group(3), int(m.group(4))
            (caught if rc == 1 else missed).append(f"{c} {t}")
        sigs = re.findall(r"^    (\S+) \|", txt, re.M)
        results.extend(sigs)
    meta_p = os.path.join(d, "meta.json")
    meta = json.load(open(meta_p)) if os.path.exists(meta_p) and sid in ("S01", "S52") else {}
    if sid in ("S01", "S52"):
        caught = meta.get("caught_by", caught)
    else:
        meta = dict(id=sid, property=prop, origin="fresh sub-agent given only the property text and a scratch worktree",
                    change=what, needs=needs, passes_repo_tests=True,
                    demonstration="demo.* + notes.md in this directory; confirmation.txt = my own re-run in a scratch worktree",
                    caught_by=sorted(set(caught)), not_caught_by=sorted(set(missed) - set(caught)),
                    signatures=sorted(set(results))[:8])
        json.dump(meta, open(meta_p, "w"), indent=1)
    rows.append((sid, prop, what, needs, sorted(set(caught)), sorted(set(missed) - set(caught)), sorted(set(results))[:3]))
print("| id | property | change | needs | caught by (quick tier, seed 1) | signatures (first) |")
print("|---|---|---|---|---|---|")
for sid, prop, what, needs, caught, missed, sigs in rows:
    c = ", ".join(caught) if caught else "**none**"
    if missed:
        c += f" (not by {', '.join(missed)})"
    if sid in STRENGTHENED:
        c += " — " + STRENGTHENED[sid]
    print(f"| {sid} | {prop} | {what} | {needs} | {c} | {'; '.join('`'+s+'`' for s in sigs)} |")
