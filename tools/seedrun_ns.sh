#!/bin/bash
# usage: seedrun_ns.sh <seeded-dir-name> <tier> <check>...
# Like seedrun.sh, but /repo is left alone: the seeded change is applied to a scratch worktree of /repo's HEAD, /verif's working
# tree is copied (with the release harness build, so only risinglight + harness are recompiled), and both are bind-mounted over
# /repo and /verif inside a private mount namespace. Several of these can run side by side. The result file is written back to
# the real seeded/<id>/result_<tier>.txt.
ID=$1; TIER=$2; shift 2
S=/verif/seeded/$ID
TAG=$(echo $ID | cut -d- -f1)
WT=/tmp/ns-$TAG-repo; VF=/tmp/ns-$TAG-verif
cleanup() { git -C /repo worktree remove --force $WT 2>/dev/null; rm -rf $WT $VF; git -C /repo worktree prune; }
trap cleanup EXIT
cleanup
git -C /repo worktree add --detach $WT HEAD > /dev/null 2>&1 || exit 2
git -C $WT apply $S/patch.diff || { echo "patch does not apply"; exit 2; }
mkdir -p $VF
rsync -a --exclude .git --exclude 'harness/target-*' --exclude 'harness-miri/target' --exclude 'replays/*' /verif/ $VF/
export SEED=${VERIF_SEED:-1} TIER
unshare -m bash -c "mount --bind $WT /repo && mount --bind $VF /verif && cd /verif && : > seeded/$ID/result_$TIER.txt && for c in $*; do
  out=\$(VERIF_SEED=\$SEED timeout 7200 ./check \$c --tier \$TIER 2>/dev/null); rc=\$?
  echo \"\$c \$TIER seed=\$SEED: exit=\$rc\" >> seeded/$ID/result_\$TIER.txt
  echo \"\$out\" | grep -E '^VIOLATION|VIOLATED|INCONCLUSIVE|held on' | head -8 >> seeded/$ID/result_\$TIER.txt
  for r in \$(echo \"\$out\" | grep -oE 'replay=\S+' | cut -d= -f2 | head -6); do
    python3 -c \"import json,sys; d=json.load(open('\$r')); print('   ', d['signature'], '|', d['what'][:200])\" >> seeded/$ID/result_\$TIER.txt
  done
done"
cp $VF/seeded/$ID/result_$TIER.txt $S/result_$TIER.txt
cat $S/result_$TIER.txt
