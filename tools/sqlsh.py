#!/usr/bin/env python3
"""Triage helper: run statements (one per line of a file, or a replay witness) on risinglight with the
optimizer on and off, and on SQLite.   usage: sqlsh.py <file.sql | replay.json> [--disk] [--explain]"""
import json
import os
import sys

sys.path.insert(0, os.path.join(os.path.dirname(os.path.abspath(__file__)), "..", "py"))
os.environ.setdefault("VERIF_NO_BUILD", "1")
from sqlcase import RL, Lite  # noqa: E402


def main():
    path = sys.argv[1]
    disk = "--disk" in sys.argv
    explain = "--explain" in sys.argv
    if path.endswith(".json"):
        w = json.load(open(path))
        w = w.get("witness", w)
        setup = w.get("setup", [])
        queries = [w["sql"]] if "sql" in w else w.get("queries", [])
    else:
        lines = [l.strip().rstrip(";") for l in open(path) if l.strip() and not l.startswith("--")]
        setup = [l for l in lines if not l.lower().startswith(("select", "with", "explain"))]
        queries = [l for l in lines if l.lower().startswith(("select", "with", "explain"))]
    rl = RL("disk" if disk else "mem")
    lite = Lite()
    for s in setup:
        r = rl.sql(s)
        l = lite.sql(s)
        if not r["ok"] or not l["ok"]:
            print("SETUP", s, "rl:", r.get("err"), "lite:", l.get("err"))
    for q in queries:
        print("Q:", q)
        for mode in ("enable_optimizer", "disable_optimizer"):
            rl.sql(f"PRAGMA {mode}")
            r = rl.sql(q)
            print(f"  rl[{mode[:3]}]:", sorted(map(repr, r["rows"])) if r["ok"] else (r.get("kind"), r.get("err"), r.get("panics")))
        rl.sql("PRAGMA enable_optimizer")
        l = lite.sql(q)
        print("  sqlite  :", sorted(map(repr, l["rows"])) if l["ok"] else l["err"])
        if explain:
            e = rl.sql("EXPLAIN " + q)
            print(e["rows"][0][0] if e["ok"] else e)
    rl.close()


main()
