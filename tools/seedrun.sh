#!/bin/bash
# usage: seedrun.sh <seeded-dir-name> <tier> <check>...   apply a seeded change to /repo, run checks, undo.
S=/verif/seeded/$1; TIER=$2; shift 2
git -C /repo status --porcelain --untracked-files=no | grep -q . && { echo "/repo dirty"; exit 2; }
git -C /repo apply $S/patch.diff || exit 2
# undo, and rebuild the harness from the restored tree (a stale seeded binary must never be used with VERIF_NO_BUILD=1)
trap 'git -C /repo checkout -- . ; (cd /verif/harness && CARGO_NET_OFFLINE=true cargo build --release --offline > /dev/null 2>&1)' EXIT
: > $S/result_$TIER.txt
for c in "$@"; do
  out=$(cd /verif && VERIF_SEED=${VERIF_SEED:-1} timeout 7200 ./check $c --tier $TIER 2>/dev/null)
  rc=$?
  echo "$c $TIER seed=${VERIF_SEED:-1}: exit=$rc" >> $S/result_$TIER.txt
  echo "$out" | grep -E "^VIOLATION|VIOLATED|INCONCLUSIVE|held on" | head -8 >> $S/result_$TIER.txt
  # keep the violation summaries (signature/what) of the replays
  for r in $(echo "$out" | grep -oE "replay=\S+" | cut -d= -f2 | head -6); do
    python3 -c "import json,sys; d=json.load(open('$r')); print('   ', d['signature'], '|', d['what'][:200])" >> $S/result_$TIER.txt
    rm -f $r
  done
done
cat $S/result_$TIER.txt
